"""python3-vt -m pyvc.replay <file>: replay a recorded violation on the real code."""
import json
import os
import subprocess
import sys

ROOT = os.path.dirname(os.path.dirname(os.path.abspath(__file__)))


def main(argv):
    path = argv[0]
    data = json.load(open(path))
    if data.get("enum"):
        return subprocess.call(["/venv/bin/python", os.path.join(ROOT, "checks", data["enum"]), "--replay", path])
    return subprocess.call(["/venv/bin/python", os.path.join(ROOT, "pyvc", "concrete.py"), "--replay", path])


if __name__ == "__main__":
    sys.exit(main(sys.argv[1:]))
