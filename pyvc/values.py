"""Static types and symbolic values.

A type is flattened into a list of scalar SMT sorts; a symbolic value (SV)
is a type plus one term per flattened component.  Lists are structs of
sequences (one sequence per scalar component of the element type, all of
the same length); Optional[T] is an is-none flag followed by T.
"""
import re
from . import smt
from .smt import T, INT, BOOL, STR, U


class Ty:
    __slots__ = ("kind", "args", "cls")

    def __init__(self, kind, args=(), cls=None):
        self.kind = kind
        self.args = tuple(args)
        self.cls = cls

    def __eq__(self, o):
        return isinstance(o, Ty) and self.kind == o.kind and self.args == o.args and self.cls == o.cls

    def __hash__(self):
        return hash((self.kind, self.args, self.cls))

    def __repr__(self):
        if self.kind == "opt":
            return "%r?" % (self.args[0],)
        if self.kind in ("list", "tuple", "dict"):
            return "%s[%s]" % (self.kind, ",".join(map(repr, self.args)))
        if self.kind == "ref" and self.cls:
            return "ref:%s" % self.cls
        return self.kind


TINT, TBOOL, TSTR, TTSTR, TNONE, TANY, TCLS = (Ty(k) for k in ("int", "bool", "str", "tstr", "none", "any", "cls"))
TEMPTY = Ty("list", (Ty("unknown"),))


def Opt(t):
    if t.kind in ("opt", "none", "any"):
        return t
    return Ty("opt", (t,))


def ListT(t):
    return Ty("list", (t,))


def TupT(ts):
    return Ty("tuple", tuple(ts))


def DictT(k, v):
    return Ty("dict", (k, v))


def Ref(cls=None):
    return Ty("ref", (), cls)


def parse_type(text):
    text = text.strip()
    if text.endswith("?"):
        return Opt(parse_type(text[:-1]))
    m = re.fullmatch(r"(list|deque|tuple|dict)\[(.*)\]", text)
    if m:
        parts = _split_top(m.group(2))
        if m.group(1) in ("list", "deque"):
            return ListT(parse_type(parts[0]))
        if m.group(1) == "dict":
            return DictT(parse_type(parts[0]), parse_type(parts[1]))
        return TupT([parse_type(p) for p in parts])
    if text.startswith("ref"):
        return Ref(text[4:] or None) if text[3:4] in (":", "") else Ref(text)
    if text == "regex":
        return Ty("regex")
    table = {"int": TINT, "bool": TBOOL, "str": TSTR, "tstr": TTSTR, "none": TNONE, "any": TANY, "cls": TCLS}
    if text in table:
        return table[text]
    # a bare class name is a reference to an instance of it
    return Ref(text)


def _split_top(s):
    out, depth, cur = [], 0, ""
    for ch in s:
        if ch == "[":
            depth += 1
        elif ch == "]":
            depth -= 1
        if ch == "," and depth == 0:
            out.append(cur)
            cur = ""
        else:
            cur += ch
    if cur.strip():
        out.append(cur)
    return out


def flatten(ty):
    k = ty.kind
    if k in ("int", "cls", "ref", "regex"):
        return [INT]
    if k == "optmatch":
        return [BOOL]
    if k in ("match", "func", "excval", "excobj"):
        return [INT] if k == "excobj" else []
    if k == "bool":
        return [BOOL]
    if k == "str":
        return [STR]
    if k == "tstr":
        return [STR, INT]
    if k == "none":
        return []
    if k == "any":
        return [U]
    if k == "opt":
        return [BOOL] + flatten(ty.args[0])
    if k == "tuple":
        out = []
        for a in ty.args:
            out += flatten(a)
        return out
    if k == "list":
        if ty.args[0].kind == "unknown":
            return []
        inner = flatten(ty.args[0])
        for s in inner:
            if s.startswith("(Seq") or s.startswith("(Array"):
                raise Unsupported("nested list type %r" % (ty,))
        if not inner:
            raise Unsupported("list of unit type %r" % (ty,))
        return [smt.seq(s) for s in inner]
    if k == "dict":
        ks = flatten(ty.args[0])
        if len(ks) != 1:
            raise Unsupported("dict key type %r" % (ty,))
        return [smt.arr(ks[0], BOOL)] + [smt.arr(ks[0], s) for s in flatten(ty.args[1])]
    raise Unsupported("type %r" % (ty,))


class Unsupported(Exception):
    """Raised when the function leaves the supported subset."""


class SV:
    """symbolic value"""
    __slots__ = ("ty", "ts", "py")

    def __init__(self, ty, ts, py=None):
        self.ty = ty
        self.ts = list(ts)
        self.py = py   # optional python-level payload (closures, class names, concrete lists)

    def __repr__(self):
        return "SV(%r, %s)" % (self.ty, [t.s for t in self.ts])

    @property
    def t(self):
        assert len(self.ts) == 1, self
        return self.ts[0]


def mk_int(t):
    return SV(TINT, [t if isinstance(t, T) else smt.Int(t)])


def mk_bool(t):
    return SV(TBOOL, [t if isinstance(t, T) else smt.Bool(t)])


def mk_str(t):
    return SV(TSTR, [t if isinstance(t, T) else smt.Str(t)])


def mk_tstr(t, tag):
    return SV(TTSTR, [t, tag if isinstance(tag, T) else smt.Int(tag)])


NONE = SV(TNONE, [])


def default_terms(ty):
    """arbitrary but fixed terms for the don't-care part of a None optional"""
    out = []
    for s in flatten(ty):
        if s == INT:
            out.append(smt.Int(0))
        elif s == BOOL:
            out.append(smt.FALSE)
        elif s == STR:
            out.append(smt.Str(""))
        elif s.startswith("(Seq "):
            out.append(smt.EmptySeq(smt.elem_sort(s)))
        elif s == U:
            out.append(T("u!none", U))
        else:
            out.append(T("(as dflt!%s %s)" % (re.sub(r"\W", "_", s), s), s))
    return out


def opt_none(inner_ty):
    return SV(Opt(inner_ty), [smt.TRUE] + default_terms(inner_ty))


def opt_some(v):
    if v.ty.kind in ("opt", "none", "any"):
        return v
    return SV(Opt(v.ty), [smt.FALSE] + v.ts)


def opt_isnone(v):
    assert v.ty.kind == "opt"
    return v.ts[0]


def opt_inner(v):
    assert v.ty.kind == "opt"
    return SV(v.ty.args[0], v.ts[1:])


def tuple_items(v):
    assert v.ty.kind == "tuple", v
    out, pos = [], 0
    for a in v.ty.args:
        n = len(flatten(a))
        out.append(SV(a, v.ts[pos:pos + n]))
        pos += n
    return out


def mk_tuple(items):
    ts = []
    for it in items:
        ts += it.ts
    return SV(TupT([it.ty for it in items]), ts)


def sv_ite(c, a, b):
    assert a.ty == b.ty, (a, b)
    return SV(a.ty, [smt.Ite(c, x, y) for x, y in zip(a.ts, b.ts)])


def sv_eq(a, b):
    """structural equality term of two values of the same type"""
    assert a.ty == b.ty, (a, b)
    k = a.ty.kind
    if k == "opt":
        na, nb = a.ts[0], b.ts[0]
        inner = sv_eq(opt_inner(a), opt_inner(b))
        return smt.And(smt.Eq(na, nb), smt.Implies(smt.Not(na), inner))
    if k == "tuple":
        return smt.And(*[sv_eq(x, y) for x, y in zip(tuple_items(a), tuple_items(b))])
    if k == "list" and a.ty.args[0].kind == "opt":
        # element-wise optional equality is not needed so far
        return smt.And(*[smt.Eq(x, y) for x, y in zip(a.ts, b.ts)])
    return smt.And(*[smt.Eq(x, y) for x, y in zip(a.ts, b.ts)])
