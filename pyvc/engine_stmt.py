"""Statements: blocks, assignment, if, loops with invariants, try/except, raise."""
import ast
from . import smt
from .smt import T, INT, BOOL, STR, U
from .values import *  # noqa
from .values import SV, Ty, Unsupported
from .state import State, Exc, Outcome
from . import contracts as C

MAX_PATHS = 20000


class StmtMixin:
    def exec_block(self, stmts, st):
        live = [st]
        done = []
        for s in stmts:
            nxt = []
            for cur in live:
                if cur.infeasible():
                    continue
                for o in self.exec_stmt(s, cur):
                    if o.st.infeasible():
                        continue
                    if o.kind == "normal":
                        nxt.append(o.st)
                    else:
                        done.append(o)
            live = nxt
            if len(live) + len(done) > MAX_PATHS:
                raise Unsupported("path explosion (> %d paths)" % MAX_PATHS)
            if not live:
                break
        return done + [Outcome("normal", s2) for s2 in live]

    def exec_stmt(self, s, st):
        self.curline = getattr(s, "lineno", self.curline)
        m = getattr(self, "st_" + type(s).__name__, None)
        if m is None:
            raise Unsupported("statement %s at L%d" % (type(s).__name__, self.relline))
        return m(s, st)

    @property
    def relline(self):
        return self.curline - self.first_line

    def raise_outs(self, exc):
        return list(exc)

    # ---------------------------------------------------------------- simple
    def st_Pass(self, s, st):
        return [Outcome("normal", st)]

    def st_Import(self, s, st):
        return [Outcome("normal", st)]

    st_ImportFrom = st_Import
    st_Global = st_Import

    def st_Expr(self, s, st):
        if isinstance(s.value, ast.Constant):
            return [Outcome("normal", st)]
        exc = []
        outs = [Outcome("normal", s2) for s2, _ in self.ev(s.value, st, exc)]
        return outs + exc

    def st_Return(self, s, st):
        exc = []
        site = self.return_ordinals.get(id(s))
        if s.value is None:
            return [Outcome("return", st, NONE, site)]
        outs = [Outcome("return", s2, v, site) for s2, v in self.ev(s.value, st, exc)]
        return outs + exc

    def st_Break(self, s, st):
        return [Outcome("break", st)]

    def st_Continue(self, s, st):
        return [Outcome("continue", st)]

    def st_FunctionDef(self, s, st):
        st.env[s.name] = SV(Ty("func"), [], py=("closure", s))
        return [Outcome("normal", st)]

    def st_Assert(self, s, st):
        exc = []
        outs = []
        for s2, c in self.ev_cond(s.test, st, exc):
            if self.expects(s2, "AssertionError"):
                bad = s2.copy().assume(smt.Not(c))
                if not bad.infeasible():
                    exc.append(Outcome("raise", bad, Exc("AssertionError")))
                s2.assume(c)
            else:
                self.oblige(s2, c, "%s#assert" % (self.short,), "assert", self.curline, ast.unparse(s.test))
            outs.append(Outcome("normal", s2))
        return outs + exc

    def st_Delete(self, s, st):
        exc = []
        for tgt in s.targets:
            if not isinstance(tgt, ast.Subscript):
                raise Unsupported("del of non-subscript")
            res = self.ev_seq([tgt.value, tgt.slice], st, exc)
            if len(res) != 1:
                raise Unsupported("del target forked")
            _, (cont, idx) = res[0]
            if cont.ty.kind != "dict" or cont.ty.args[0].kind == "unknown":
                raise Unsupported("del on %r" % (cont.ty,))
            k = self.coerce(idx, cont.ty.args[0], st)
            self.require_noexc(st, smt.Select(cont.ts[0], k.ts[0]), "KeyError", "del_key", exc)
            new = [smt.Store(cont.ts[0], k.ts[0], smt.FALSE)] + cont.ts[1:]
            self.assign_to(tgt.value, SV(cont.ty, new), st, exc)
        return [Outcome("normal", st)] + exc

    # ------------------------------------------------------------ assignment
    def st_Assign(self, s, st):
        exc = []
        outs = []
        for s2, v in self.ev(s.value, st, exc):
            if all(isinstance(t, (ast.Tuple, ast.List)) for t in s.targets):
                pass        # unpacking takes the elements out; the list itself gets no second name
            elif not all(isinstance(t, ast.Attribute) for t in s.targets):
                self.check_alias(s.value, v)
            elif v.ty.kind in ("list", "dict") and isinstance(s.value, (ast.Name, ast.Attribute)):
                self.note("list/dict stored into a field by reference is modelled as a copy (%s)" % ast.unparse(s.value))
            for tgt in s.targets:
                self.assign_to(tgt, v, s2, exc)
            self.check_after_assign(s, s2)
            outs.append(Outcome("normal", s2))
        return outs + exc

    def check_after_assign(self, s, st):
        """intermediate assertions of the sidecar: ensures_local keys 'name@after:<target> = <callee>' are proof
        obligations in the state right after that assignment (target text and called name taken from the source)"""
        locs = [k for k in self.contract.ensures_local if "@after:" in k]
        snaps = getattr(self.contract, "snapshots", {})
        if not (locs or snaps) or not isinstance(s.value, ast.Call):
            return
        here = "%s = %s" % (ast.unparse(s.targets[0]), ast.unparse(s.value.func))
        for label, where in snaps.items():
            if where.strip() == here:
                rec = st.copy()
                rec.snaps = {}
                st.snaps = dict(st.snaps)
                st.snaps[label] = rec
                self.after_sites_seen.add("snapshot:" + label)
        for key in locs:
            name, where = key.split("@after:")
            if where.strip() != here:
                continue
            self.after_sites_seen.add(key)
            self.cur_clause = name
            env = dict(st.env)
            env.update(self.params_env)
            g, sk = self.goal_term(self.contract.ensures_local[key], env, st, old=self.entry_state)
            self.oblige(st, g, "%s#after.%s" % (self.short, name), "ensures", self.curline, self.contract.ensures_local[key], sk)

    def st_AnnAssign(self, s, st):
        if s.value is None:
            return [Outcome("normal", st)]
        exc = []
        outs = []
        for s2, v in self.ev(s.value, st, exc):
            self.assign_to(s.target, v, s2, exc)
            outs.append(Outcome("normal", s2))
        return outs + exc

    def check_alias(self, value_ast, v):
        if v.ty.kind in ("list", "dict") and isinstance(value_ast, (ast.Name, ast.Attribute)):
            raise Unsupported("aliasing of a mutable %s (%s)" % (v.ty.kind, ast.unparse(value_ast)))

    def st_AugAssign(self, s, st):
        exc = []
        outs = []
        if isinstance(s.target, (ast.Name, ast.Attribute)):
            load = ast.copy_location(ast.parse(ast.unparse(s.target), mode="eval").body, s)
        else:
            raise Unsupported("augmented assignment to subscript")
        for s2, (cur, v) in self.ev_seq([load, s.value], st, exc):
            if isinstance(s.op, (ast.BitOr, ast.BitAnd)) and cur.ty.kind == "bool":
                vb = self.truthy(v)
                new = mk_bool(smt.Or(cur.t, vb) if isinstance(s.op, ast.BitOr) else smt.And(cur.t, vb))
            else:
                new = self.binop(s.op, cur, v, s2, exc)
            self.assign_to(s.target, new, s2, exc)
            outs.append(Outcome("normal", s2))
        return outs + exc

    def assign_to(self, tgt, v, st, exc):
        if isinstance(tgt, ast.Name):
            n = tgt.id
            if n in self.contract.locals:
                v = self.coerce(v, parse_type(self.contract.locals[n]), st, " (local %s)" % n)
            if n in C.GHOSTS:
                raise Unsupported("code assigns ghost name %s" % n)
            st.env[n] = v
            return
        if isinstance(tgt, (ast.Tuple, ast.List)):
            if v.ty.kind != "tuple" or len(v.ty.args) != len(tgt.elts):
                if v.ty.kind == "any":
                    for i, t in enumerate(tgt.elts):
                        self.assign_to(t, self.opaque("unpack%d" % i, [v]), st, exc)
                    return
                if v.ty.kind == "list" and v.ty.args[0].kind != "unknown":
                    # unpacking a list: ValueError unless it has exactly as many elements as there are targets
                    self.require_noexc(st, smt.Eq(smt.Len(v.ts[0]), smt.Int(len(tgt.elts))), "ValueError", "unpack_count", exc)
                    for i, t in enumerate(tgt.elts):
                        self.assign_to(t, SV(v.ty.args[0], [smt.At(c, smt.Int(i)) for c in v.ts]), st, exc)
                    return
                raise Unsupported("unpacking %r into %d targets" % (v.ty, len(tgt.elts)))
            for t, it in zip(tgt.elts, tuple_items(v)):
                self.assign_to(t, it, st, exc)
            return
        if isinstance(tgt, ast.Attribute):
            bases = self.ev(tgt.value, st, exc)
            if len(bases) != 1:
                raise Unsupported("attribute target forked")
            _, base = bases[0]
            if base.ty.kind == "opt":
                self.require_noexc(st, smt.Not(base.ts[0]), "AttributeError", "setattr_on_none", exc)
                base = opt_inner(base)
            if base.ty.kind == "cls":
                self.note("class attribute write %s ignored in the model (listed by the frame scan)" % ast.unparse(tgt))
                return
            if base.ty.kind != "ref":
                raise Unsupported("attribute store on %r" % (base.ty,))
            setter = self.property_node(base.ty.cls, tgt.attr, setter=True)
            if setter is not None:
                res = [r for r in self.inline(setter, [base, v], {}, st, exc) if not r[0].infeasible()]
                s2 = self.join_states([r[0] for r in res], len(st.pc))
                if s2 is None:
                    raise Unsupported("property setter %s forked" % tgt.attr)
                st.env, st.heap, st.pc = s2.env, s2.heap, s2.pc
                return
            if self.field_type(tgt.attr) is None:
                self.fields[tgt.attr] = v.ty if v.ty.kind not in ("none",) else TANY
                self.note("field .%s typed %r from first store" % (tgt.attr, self.fields[tgt.attr]))
            self.heap_write(st, base.ts[0], tgt.attr, v)
            return
        if isinstance(tgt, ast.Subscript):
            res = self.ev_seq([tgt.value, tgt.slice], st, exc)
            if len(res) != 1:
                raise Unsupported("subscript target forked")
            _, (cont, idx) = res[0]
            if cont.ty.kind == "list":
                i = self.coerce(idx, TINT, st).t
                n = smt.Len(cont.ts[0])
                self.require_noexc(st, smt.And(smt.Le(smt.Int(0), i), smt.Lt(i, n)), "IndexError", "store_index", exc)
                v = self.coerce(v, cont.ty.args[0], st)
                new = [smt.Concat(smt.Concat(smt.Substr(c, smt.Int(0), i), smt.Unit(x)),
                                  smt.Substr(c, smt.Add(i, smt.Int(1)), smt.Sub(n, smt.Add(i, smt.Int(1)))))
                       for c, x in zip(cont.ts, v.ts)]
                self.assign_to(tgt.value, SV(cont.ty, new), st, exc)
                return
            if cont.ty.kind == "dict":
                if cont.ty.args[0].kind == "unknown":
                    decl = self.declared_list_type(tgt.value)
                    dty = decl if decl is not None else DictT(idx.ty, v.ty)
                    cont = self.empty_dict(dty)
                k = self.coerce(idx, cont.ty.args[0], st)
                v = self.coerce(v, cont.ty.args[1], st)
                new = [smt.Store(cont.ts[0], k.ts[0], smt.TRUE)] + [smt.Store(a, k.ts[0], x) for a, x in zip(cont.ts[1:], v.ts)]
                self.assign_to(tgt.value, SV(cont.ty, new), st, exc)
                return
            if cont.ty.kind == "any":
                self.note("store into opaque container ignored")
                return
            raise Unsupported("subscript store on %r" % (cont.ty,))
        raise Unsupported("assignment target %s" % type(tgt).__name__)

    # ---------------------------------------------------------------------- if
    def narrow(self, test, st, positive):
        """type narrowing of Optional names after a test on them"""
        name = None
        if isinstance(test, ast.Name):
            name, nonnull = test.id, positive
        elif isinstance(test, ast.UnaryOp) and isinstance(test.op, ast.Not) and isinstance(test.operand, ast.Name):
            name, nonnull = test.operand.id, not positive
        elif isinstance(test, ast.Compare) and len(test.ops) == 1 and isinstance(test.left, ast.Name) \
                and isinstance(test.comparators[0], ast.Constant) and test.comparators[0].value is None:
            if isinstance(test.ops[0], (ast.IsNot, ast.NotEq)):
                name, nonnull = test.left.id, positive
            elif isinstance(test.ops[0], (ast.Is, ast.Eq)):
                name, nonnull = test.left.id, not positive
        elif isinstance(test, ast.BoolOp) and isinstance(test.op, ast.And) and positive:
            for v in test.values:
                self.narrow(v, st, True)
            return st
        elif isinstance(test, ast.BoolOp) and isinstance(test.op, ast.Or) and not positive:
            for v in test.values:
                self.narrow(v, st, False)
            return st
        if name and nonnull and name in st.env and isinstance(st.env[name], SV) and st.env[name].ty.kind == "opt":
            st.env[name] = opt_inner(st.env[name])
        return st

    def st_If(self, s, st):
        exc = []
        outs = []
        for s2, c in self.ev_cond(s.test, st, exc):
            if c.s not in ("true", "false") and not self.contract.merge:
                # prune branches the path condition already decides (in-process, 'unsat' only)
                if self.entails(s2, c, ms=100):
                    c = smt.TRUE
                elif self.entails(s2, smt.Not(c), ms=100):
                    c = smt.FALSE
            if c.s != "false":
                outs += self.exec_block(s.body, self.narrow(s.test, s2.copy().assume(c), True))
            if c.s != "true":
                s3 = self.narrow(s.test, s2.copy().assume(smt.Not(c)), False)
                outs += self.exec_block(s.orelse, s3) if s.orelse else [Outcome("normal", s3)]
        return self.merge_outcomes(outs, st) + exc

    def join_states(self, states, k):
        """join states that differ only in their path conditions beyond index k"""
        if not states:
            return None
        if len(states) == 1:
            return states[0]
        b = states[0]
        for s in states[1:]:
            if s.pc[:k] != b.pc[:k] or set(s.heap) != set(b.heap):
                return None
            for f in s.heap:
                if [t.s for t in s.heap[f].ts] != [t.s for t in b.heap[f].ts]:
                    return None
            for n, v in s.env.items():
                w = b.env.get(n)
                if w is None or not (w is v or (isinstance(v, SV) and isinstance(w, SV) and v.ty == w.ty and v.ts == w.ts)):
                    return None
        out = b.copy()
        out.pc = b.pc[:k]
        out.assume(smt.Or(*[smt.And(*s.pc[k:]) for s in states]))
        return out

    def merge_outcomes(self, outs, origin):
        """join the normal outcomes of an if statement (only when contract.merge)"""
        if not self.contract.merge:
            return outs
        normal = [o for o in outs if o.kind == "normal" and not o.st.infeasible()]
        rest = [o for o in outs if o.kind != "normal"]
        if len(normal) <= 1:
            return rest + normal
        k = len(origin.pc)
        if any(o.st.pc[:k] != origin.pc for o in normal):
            return outs
        # ghost variables are created lazily: give every branch the ones any branch has
        for g in C.GHOSTS:
            if any(g in o.st.env for o in normal):
                for o in normal:
                    if g not in o.st.env:
                        self.ghost_entry(g, o.st)
        # a variable bound on some branches only is unbound (here: arbitrary) on the others
        allnames = set()
        for o in normal:
            allnames |= set(o.st.env)
        for n in allnames:
            have = [o.st.env[n] for o in normal if n in o.st.env]
            if len(have) == len(normal) or not isinstance(have[0], SV) or not have[0].ts or have[0].py is not None:
                continue
            ty = have[0].ty
            for v in have[1:]:
                ty = self.join_types(ty, v.ty)
            if ty.kind in ("any", "func", "excval") and any(v.ty.kind != "any" for v in have):
                continue
            for o in normal:
                if n not in o.st.env:
                    o.st.env[n] = self.fresh_sv(ty, "unbound_" + n)
        names = set(normal[0].st.env)
        for o in normal[1:]:
            names &= set(o.st.env)
        fields = set()
        for o in normal:
            fields |= set(o.st.heap)
        st = origin.copy()
        st.cur_exc = normal[0].st.cur_exc
        conds = [self.name_term(st, smt.And(*o.st.pc[k:]), "br", 200) for o in normal]
        st.assume(smt.Or(*conds))
        env = {}
        for n in names:
            vals = [o.st.env[n] for o in normal]
            if all(v is vals[0] or (isinstance(v, SV) and v.ty == vals[0].ty and v.ts == vals[0].ts and v.py == vals[0].py) for v in vals):
                env[n] = vals[0]
                continue
            ty = vals[0].ty
            for v in vals[1:]:
                ty = self.join_types(ty, v.ty)
            if ty.kind in ("func",) or (ty.kind == "any" and any(v.ty.kind != "any" for v in vals)) or any(v.py is not None and v.ty.kind != "cls" for v in vals):
                return outs   # cannot merge soundly; keep paths separate
            if ty.kind == "cls" and any(v.py != vals[0].py for v in vals):
                vals = [SV(TCLS, v.ts, py=None) for v in vals]
            try:
                cv = [self.coerce(v, ty, st) for v in vals]
            except Unsupported:
                return outs
            cur = cv[-1]
            for c, v in zip(reversed(conds[:-1]), reversed(cv[:-1])):
                cur = sv_ite(c, v, cur)
            env[n] = self.name_sv(st, cur, n)
        st.env = env
        for f in fields:
            arrs = [self.heap_arr(o.st, f) for o in normal]
            cur = arrs[-1]
            for c, a in zip(reversed(conds[:-1]), reversed(arrs[:-1])):
                cur = sv_ite(c, a, cur)
            st.heap[f] = self.name_sv(st, cur, "H_" + f)
        return rest + [Outcome("normal", st)]

    # -------------------------------------------------------------------- raise
    def st_Raise(self, s, st):
        if s.exc is None:
            if st.cur_exc is None:
                raise Unsupported("bare raise outside handler")
            return [Outcome("raise", st, st.cur_exc)]
        exc = []
        outs = []
        for s2, v in self.ev(s.exc, st, exc):
            outs.append(Outcome("raise", s2, self.as_exception(v, s2)))
        return outs + exc

    def as_exception(self, v, st):
        if v.ty.kind == "excobj":
            name = v.ty.cls
            return Exc(name, None, v)
        if v.ty.kind == "cls" and isinstance(v.py, str):
            return Exc(v.py)
        if isinstance(v.py, Exc):
            return v.py
        if v.ty.kind == "ref":
            return Exc(None, self.typeof(v.ts[0]), v)
        raise Unsupported("raise of %r" % (v.ty,))

    # ---------------------------------------------------------------------- try
    def st_Try(self, s, st):
        names_per_handler = []
        for h in s.handlers:
            if h.type is None:
                names_per_handler.append(["BaseException"])
            elif isinstance(h.type, ast.Tuple):
                names_per_handler.append([static_last(x) for x in h.type.elts])
            else:
                names_per_handler.append([static_last(h.type)])
        expected = frozenset(n for ns in names_per_handler for n in ns)
        st_in = st.copy()
        st_in.handlers = st.handlers + (expected,)
        body_outs = self.exec_block(s.body, st_in)
        results = []
        for o in body_outs:
            o.st.handlers = st.handlers
            if o.kind == "raise":
                results += self.dispatch_handlers(s, names_per_handler, o)
            elif o.kind == "normal" and s.orelse:
                results += self.exec_block(s.orelse, o.st)
            else:
                results.append(o)
        if s.finalbody:
            final = []
            for o in results:
                for f in self.exec_block(s.finalbody, o.st):
                    if f.kind == "normal":
                        final.append(Outcome(o.kind, f.st, o.val))
                    else:
                        final.append(f)
            results = final
        return results

    def dispatch_handlers(self, s, names_per_handler, o):
        out = []
        st = o.st
        exc_val = o.val
        for h, names in zip(s.handlers, names_per_handler):
            c = self.exc_matches(exc_val, names)
            if c.s == "false":
                continue
            hs = st.copy().assume(c)
            if not hs.infeasible():
                saved = hs.cur_exc
                hs.cur_exc = exc_val
                if h.name:
                    hs.env[h.name] = SV(Ty("excval"), [], py=exc_val)
                for ho in self.exec_block(h.body, hs):
                    ho.st.cur_exc = saved
                    if h.name and h.name in ho.st.env:
                        del ho.st.env[h.name]
                    out.append(ho)
            if c.s == "true":
                return out
            st = st.copy().assume(smt.Not(c))
        if not st.infeasible():
            out.append(Outcome("raise", st, exc_val))
        return out

    # -------------------------------------------------------------------- loops
    def loop_spec(self, node):
        if id(node) not in self.loop_ordinals:
            raise Unsupported("loop inside an inlined function (give that function a contract)")
        idx = self.loop_ordinals[id(node)]
        spec = self.contract.loops.get(idx)
        return idx, spec

    def assigned_names(self, nodes):
        names = set()
        for n in nodes:
            for x in ast.walk(n):
                if isinstance(x, ast.Name) and isinstance(x.ctx, ast.Store):
                    names.add(x.id)
                elif isinstance(x, ast.AugAssign) and isinstance(x.target, ast.Name):
                    names.add(x.target.id)
                elif isinstance(x, ast.Call) and isinstance(x.func, ast.Attribute) and isinstance(x.func.value, ast.Name) \
                        and x.func.attr in ("append", "pop", "popleft", "appendleft", "insert", "reverse", "extend", "remove", "clear"):
                    names.add(x.func.value.id)
                elif isinstance(x, ast.Subscript) and isinstance(x.ctx, ast.Store) and isinstance(x.value, ast.Name):
                    names.add(x.value.id)
                elif isinstance(x, ast.Call) and isinstance(x.func, ast.Name):
                    # bound-method aliases such as lines_append = lines.append
                    pass
        return names

    def assigned_fields(self, nodes):
        fields = set()
        for n in nodes:
            for x in ast.walk(n):
                if isinstance(x, ast.Attribute) and isinstance(x.ctx, ast.Store):
                    fields.add(x.attr)
                elif isinstance(x, ast.Call) and isinstance(x.func, ast.Attribute) and isinstance(x.func.value, ast.Attribute) \
                        and x.func.attr in ("append", "pop", "popleft", "appendleft", "insert", "reverse", "extend"):
                    fields.add(x.func.value.attr)
                elif isinstance(x, ast.Subscript) and isinstance(x.ctx, ast.Store) and isinstance(x.value, ast.Attribute):
                    fields.add(x.value.attr)
        return fields

    def havoc_loop(self, st, nodes, spec, extra_names=()):
        names = self.assigned_names(nodes) | set(extra_names) | set(spec.get("havoc", []))
        for b, (tgt_src) in self.bound_aliases.items():
            if b in {n.id for nd in nodes for n in ast.walk(nd) if isinstance(n, ast.Name)}:
                root = tgt_src.split(".")[0]
                if "." in tgt_src:
                    pass
                else:
                    names.add(root)
        types = spec.get("types", {})
        for n in sorted(names):
            if n in types:
                ty = parse_type(types[n])
            elif n in self.contract.locals:
                ty = parse_type(self.contract.locals[n])
            elif n in st.env and isinstance(st.env[n], SV):
                ty = st.env[n].ty
                if ty.kind in ("func", "excval"):
                    continue
                if ty.kind == "list" and ty.args[0].kind == "unknown":
                    raise Unsupported("loop-modified list %s has no element type (give locals=)" % n)
                if ty.kind == "dict" and ty.args[0].kind == "unknown":
                    raise Unsupported("loop-modified dict %s has no type (give locals=)" % n)
            else:
                continue   # first assigned inside the loop: not live at the head
            st.env[n] = self.fresh_sv(ty, n, st)
        fields = self.assigned_fields(nodes)
        local = {}
        for m in spec.get("modifies", self.contract.modifies):
            if m in C.GHOSTS:
                if m not in st.env:
                    self.ghost_entry(m, st)
                st.env[m] = self.fresh_sv(st.env[m].ty, "g_" + m, st)
            elif m.startswith("*."):
                fields.add(m[2:])
            elif "." in m:
                p, f = m.split(".", 1)
                local.setdefault(f, []).append(p)
        for f in sorted(fields | set(local)):
            if not (f in st.heap or self.field_type(f) is not None):
                continue
            if f in local and f not in {m[2:] for m in self.contract.modifies if m.startswith("*.")}:
                # the function may write this field only at the listed objects (frame-checked at exit)
                for p in local[f]:
                    obj = self.frame_object(p, st)
                    self.heap_havoc(st, f, at=obj.ts[0])
            else:
                self.heap_havoc(st, f)

    def prune_dead(self, st):
        """At a loop head, drop path facts that mention a symbol no longer reachable from the
        environment, the heap, the entry state or the parameters (weakens the hypotheses: sound)."""
        live = set()
        for v in list(st.env.values()) + list(st.heap.values()) + list(self.entry_state.env.values()) + list(self.entry_state.heap.values()):
            if isinstance(v, SV):
                for t in v.ts:
                    live |= smt.symbols(t.s)
        # named sub-terms stay meaningful only with their definitions: close liveness under them
        todo = [n for n in live if n in self.let_defs]
        while todo:
            n = todo.pop()
            for s2 in self.let_defs[n]:
                if s2 not in live:
                    live.add(s2)
                    if s2 in self.let_defs:
                        todo.append(s2)
        consts = {n for n, (txt, _) in self.ctx.decls.items() if txt.startswith("(declare-fun %s () " % n)}
        keep = []
        pre = len(self.pre_pc)
        for i, t in enumerate(st.pc):
            if i < pre:
                keep.append(t)
                continue
            syms = {x for x in smt.symbols(t.s) & consts if not x.startswith(("H0_", "g0_", "glob_", "Alloc0"))}   # entry-state symbols are always live
            if syms <= live:
                keep.append(t)
        st.pc = keep

    def invariants(self, spec):
        inv = spec.get("invariant", {})
        if isinstance(inv, (list, tuple)):
            inv = {"inv%d" % i: e for i, e in enumerate(inv)}
        return inv

    def prove_invariants(self, st, spec, idx, when):
        for name, expr in self.invariants(spec).items():
            self.cur_clause = name
            g, sk = self.goal_term(expr, st.env, st, old=self.entry_state)
            self.oblige(st, g, "%s#loop%d.%s.%s" % (self.short, idx, name, when), "invariant", self.curline, expr, sk)

    def assume_invariants(self, st, spec):
        for name, expr in self.invariants(spec).items():
            self.cur_clause = name
            t = self.clause_term(expr, st.env, st, old=self.entry_state)
            self.ctx.fact_tag[t.s] = name
            st.assume(t)

    def st_While(self, s, st):
        idx, spec = self.loop_spec(s)
        if spec is None:
            raise Unsupported("while loop %d has no invariant" % idx)
        line = self.curline
        self.prove_invariants(st, spec, idx, "entry")
        head = st.copy()
        self.havoc_loop(head, s.body + [s.test], spec)
        self.prune_dead(head)
        self.assume_invariants(head, spec)
        dec0 = None
        if spec.get("decreases"):
            dec0 = self.coerce(self.ev1(ast.parse(spec["decreases"], mode="eval").body, head), TINT, head).t
        exc = []
        outs = []
        for s2, c in self.ev_cond(s.test, head, exc):
            if c.s != "false":
                body_st = self.narrow(s.test, s2.copy().assume(c), True)
                for o in self.exec_block(s.body, body_st):
                    if o.kind in ("normal", "continue"):
                        self.curline = line
                        self.prove_invariants(o.st, spec, idx, "preserved")
                        if dec0 is not None:
                            d1 = self.coerce(self.ev1(ast.parse(spec["decreases"], mode="eval").body, o.st), TINT, o.st).t
                            self.oblige(o.st, smt.And(smt.Lt(d1, dec0), smt.Ge(dec0, smt.Int(0))),
                                        "%s#loop%d.decreases" % (self.short, idx), "decreases", line, spec["decreases"])
                    elif o.kind == "break":
                        outs.append(Outcome("normal", o.st))
                    else:
                        outs.append(o)
            if c.s != "true":
                s3 = s2.copy().assume(smt.Not(c))
                outs += self.exec_block(s.orelse, s3) if s.orelse else [Outcome("normal", s3)]
        return outs + exc

    def st_For(self, s, st):
        idx, spec = self.loop_spec(s)
        exc = []
        it = s.iter
        mode = "seq"
        if isinstance(it, ast.Call) and isinstance(it.func, ast.Name) and it.func.id in ("enumerate", "reversed", "range") and it.func.id not in st.env:
            mode = it.func.id
            inner = it.args
        else:
            inner = [it]
        res = self.ev_seq(inner, st, exc)
        outs = []
        for s2, vals in res:
            outs += self.for_loop(s, s2, mode, vals, idx, spec)
        return outs + exc

    def for_loop(self, s, st, mode, vals, idx, spec):
        line = self.curline
        # iteration domain: element k for k in [0, n)
        if mode == "range":
            a = [self.coerce(v, TINT, st).t for v in vals]
            lo, hi = (smt.Int(0), a[0]) if len(a) == 1 else (a[0], a[1])
            n = smt.Max(smt.Sub(hi, lo), smt.Int(0))
            elem = lambda k: mk_int(smt.Add(lo, k))
        else:
            seqv = vals[0]
            if seqv.ty.kind == "opt":
                seqv = self.coerce(seqv, seqv.ty.args[0], st)
            kd = seqv.ty.kind
            if kd == "tuple":
                return self.unrolled_for(s, st, tuple_items(seqv), mode)
            if kd == "list" and seqv.ty.args[0].kind == "unknown":
                return self.exec_block(s.orelse, st) if s.orelse else [Outcome("normal", st)]
            if kd == "any":
                raise Unsupported("for over opaque iterable")
            if kd not in ("list", "str", "tstr"):
                raise Unsupported("for over %r" % (seqv.ty,))
            n = smt.Len(seqv.ts[0])
            if kd == "list":
                if mode == "reversed":
                    elem = lambda k: SV(seqv.ty.args[0], [smt.At(c, smt.Sub(smt.Sub(n, smt.Int(1)), k)) for c in seqv.ts])
                else:
                    elem = lambda k: SV(seqv.ty.args[0], [smt.At(c, k) for c in seqv.ts])
            else:
                if mode == "reversed":
                    raise Unsupported("reversed(str)")
                elem = lambda k: mk_str(smt.At(seqv.ts[0], k))
            # constant-length lists are unrolled
            if smt.is_const(n) is False and kd == "list":
                cl = self.const_list_items(seqv)
                if cl is not None and spec is None:
                    return self.unrolled_for(s, st, cl, mode)
        if spec is None:
            raise Unsupported("for loop %d has no invariant" % idx)
        kname = spec.get("index", "_k%d" % idx)
        st.env[kname] = mk_int(0)
        for nm, expr in spec.get("bind", {}).items():
            st.env[nm] = self.ev1(ast.parse(expr, mode="eval").body, st)     # ghost snapshot of a value at loop entry
        if mode != "range" and spec.get("seq"):
            st.env[spec["seq"]] = seqv
        self.prove_invariants(st, spec, idx, "entry")
        head = st.copy()
        self.havoc_loop(head, s.body, spec, extra_names=self.target_names(s.target))
        k = self.ctx.fresh(kname, INT)
        head.env[kname] = mk_int(k)
        self.prune_dead(head)
        head.assume(smt.And(smt.Le(smt.Int(0), k), smt.Le(k, n)))
        self.assume_invariants(head, spec)
        outs = []
        # exit
        done = head.copy().assume(smt.Eq(k, n))
        outs += self.exec_block(s.orelse, done) if s.orelse else [Outcome("normal", done)]
        # one iteration
        body = head.copy().assume(smt.Lt(k, n))
        exc = []
        if mode != "range" and kd == "list" and seqv.ty.args[0].kind in ("str", "tstr") and "joinr" in self.ctx.decls and mode != "reversed":
            # instance of the lemma ''.join(xs[:k+1]) == ''.join(xs[:k]) + xs[k]   (proved once, generically)
            self.lemmas_used.add("joinr_prefix_step")
            c = seqv.ts[0]
            body.assume(smt.Eq(self.join_empty(smt.Substr(c, smt.Int(0), smt.Add(k, smt.Int(1)))),
                               smt.Concat(self.join_empty(smt.Substr(c, smt.Int(0), k)), smt.At(c, k))))
        item = elem(k)
        if mode == "enumerate":
            item = mk_tuple([mk_int(k), item])
        self.assign_to(s.target, item, body, exc)
        for o in self.exec_block(s.body, body):
            if o.kind in ("normal", "continue"):
                o.st.env[kname] = mk_int(smt.Add(k, smt.Int(1)))
                self.curline = line
                self.prove_invariants(o.st, spec, idx, "preserved")
            elif o.kind == "break":
                outs.append(Outcome("normal", o.st))
            else:
                outs.append(o)
        return outs + exc

    def target_names(self, tgt):
        return {x.id for x in ast.walk(tgt) if isinstance(x, ast.Name)}

    def const_list_items(self, seqv):
        """items of a list built from a display of known length (unit/concat chain)"""
        import re as _re
        if len(seqv.ts) != 1:
            return None
        s = seqv.ts[0].s
        units = _re.findall(r'\(seq\.unit ("(?:[^"]|"")*"|[^\s()]+)\)', s)
        rebuilt = units and ("(seq.++ " + " ".join("(seq.unit %s)" % u for u in units) + ")" if len(units) > 1 else "(seq.unit %s)" % units[0])
        if not units or rebuilt != s:
            return None
        elsort = smt.elem_sort(seqv.ts[0].sort)
        return [SV(seqv.ty.args[0], [T(u, elsort)]) for u in units]

    def unrolled_for(self, s, st, items, mode):
        if mode == "reversed":
            items = list(reversed(items))
        live = [st]
        done = []
        for k, it in enumerate(items):
            nxt = []
            for cur in live:
                exc = []
                item = mk_tuple([mk_int(k), it]) if mode == "enumerate" else it
                self.assign_to(s.target, item, cur, exc)
                done += exc
                for o in self.exec_block(s.body, cur):
                    if o.kind in ("normal", "continue"):
                        nxt.append(o.st)
                    elif o.kind == "break":
                        done.append(Outcome("normal", o.st))
                    else:
                        done.append(o)
            live = nxt
        for cur in live:
            done += self.exec_block(s.orelse, cur) if s.orelse else [Outcome("normal", cur)]
        return done


def static_last(e):
    if isinstance(e, ast.Name):
        return e.id
    if isinstance(e, ast.Attribute):
        return e.attr
    raise Unsupported("exception class expression")
