"""Solver portfolio: cvc5 1.0.3, z3 4.8.12 (/usr/bin/z3), z3 5.1.0 (z3-new).

Each query is SMT-LIB text.  Solvers are started concurrently; the first
definitive answer (sat/unsat) wins and the others are killed.  `unknown`,
timeouts and solver errors never count as an answer.
"""
import os
import shutil
import subprocess
import tempfile
import threading
import time

SOLVERS = [
    ("cvc5-1.0.3", ["/usr/bin/cvc5", "--strings-exp", "--tlimit={ms}", "--produce-models"]),
    ("z3-4.8.12", ["/usr/bin/z3", "-T:{s}", "-smt2"]),
    ("z3-5.1.0", [shutil.which("z3-new") or "z3-new", "-T:{s}", "-smt2"]),
]


def available():
    out = []
    for name, cmd in SOLVERS:
        if os.path.exists(cmd[0]) or shutil.which(cmd[0]):
            out.append(name)
    return out


class Result:
    def __init__(self, status, solver, seconds, output, per_solver):
        self.status = status        # 'unsat' | 'sat' | 'unknown'
        self.solver = solver
        self.seconds = seconds
        self.output = output
        self.per_solver = per_solver  # name -> (status, seconds)

    def __repr__(self):
        return "Result(%s by %s in %.2fs)" % (self.status, self.solver, self.seconds)


def _classify(out):
    for line in out.splitlines():
        line = line.strip()
        if line in ("sat", "unsat", "unknown", "timeout"):
            return line if line in ("sat", "unsat") else "unknown"
        if line.startswith("(error"):
            return "error"
    return "unknown"


def solve(script, timeout_s=10, solvers=None, tmpdir=None):
    """Run the portfolio on one script."""
    names = solvers or [n for n, _ in SOLVERS]
    fd, path = tempfile.mkstemp(suffix=".smt2", dir=tmpdir)
    with os.fdopen(fd, "w") as f:
        f.write(script)
    procs = {}
    results = {}
    lock = threading.Lock()
    done = threading.Event()
    winner = {}
    t0 = time.time()

    def run(name, cmd):
        argv = [c.format(ms=int(timeout_s * 1000), s=int(max(1, timeout_s))) for c in cmd] + [path]
        st = time.time()
        try:
            p = subprocess.Popen(argv, stdout=subprocess.PIPE, stderr=subprocess.STDOUT, text=True)
        except OSError as e:
            with lock:
                results[name] = ("error", 0.0, str(e))
            return
        with lock:
            procs[name] = p
        try:
            out, _ = p.communicate(timeout=timeout_s + 5)
        except subprocess.TimeoutExpired:
            p.kill()
            out, _ = p.communicate()
            out = "timeout\n" + (out or "")
        status = _classify(out or "")
        with lock:
            results[name] = (status, time.time() - st, out)
            if status in ("sat", "unsat") and not winner:
                winner["name"] = name
                done.set()

    threads = []
    for name, cmd in SOLVERS:
        if name not in names:
            continue
        th = threading.Thread(target=run, args=(name, cmd), daemon=True)
        th.start()
        threads.append(th)

    # wait for a winner or for all to finish
    while not done.is_set() and any(th.is_alive() for th in threads):
        done.wait(0.01)
    if done.is_set():
        with lock:
            for n, p in procs.items():
                if n != winner["name"] and p.poll() is None:
                    try:
                        p.kill()
                    except OSError:
                        pass
    for th in threads:
        th.join(timeout=2)
    try:
        os.unlink(path)
    except OSError:
        pass
    per = {n: (r[0], round(r[1], 3)) for n, r in results.items()}
    if winner:
        st, secs, out = results[winner["name"]]
        return Result(st, winner["name"], secs, out, per)
    out = "\n".join("%s: %s" % (n, (r[2] or "")[:300]) for n, r in results.items())
    return Result("unknown", None, time.time() - t0, out, per)
