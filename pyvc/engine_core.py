"""Engine core: context, class table, coercions, heap, exceptions, obligations."""
import ast
import os
from . import smt
from .smt import T, INT, BOOL, STR, U
from .values import *  # noqa
from .values import SV, Ty, Unsupported
from .state import State, Exc, Outcome, Obligation
from . import contracts as C

BUILTIN_EXC = {
    "BaseException": (),
    "Exception": ("BaseException",),
    "SystemExit": ("BaseException",),
    "KeyboardInterrupt": ("BaseException",),
    "StopIteration": ("Exception",),
    "ArithmeticError": ("Exception",),
    "AssertionError": ("Exception",),
    "AttributeError": ("Exception",),
    "LookupError": ("Exception",),
    "IndexError": ("LookupError",),
    "KeyError": ("LookupError",),
    "TypeError": ("Exception",),
    "ValueError": ("Exception",),
    "UnicodeError": ("ValueError",),
    "UnicodeDecodeError": ("UnicodeError",),
    "OSError": ("Exception",),
    "RuntimeError": ("Exception",),
    "NotImplementedError": ("RuntimeError",),
    # fparser
    "FparserException": ("Exception",),
    "NoMatchError": ("FparserException",),
    "FortranSyntaxError": ("FparserException",),
    "InternalError": ("FparserException",),
    "InternalSyntaxError": ("FparserException",),
    "FortranReaderError": ("Exception",),
    "SymbolTableError": ("Exception",),
}

STR_TAGS = {"str": 0, "String": 1, "ParenString": 2}


class CoreMixin:
    def init_core(self):
        self.ctx = smt.Context()
        self.obligations = []
        self.notes = []            # abstractions made (evidence)
        self.assumptions = []      # assumptions used (evidence)
        self.class_ids = {}
        self.bases = {}
        for n, b in BUILTIN_EXC.items():
            self.bases[n] = tuple(b)
        for n, d in C.CLASSES.items():
            self.bases[n] = tuple(d["bases"])
        self.fields = {}
        for n, d in C.CLASSES.items():
            for f, t in d["fields"].items():
                ty = parse_type(t)
                if f in self.fields and self.fields[f] != ty:
                    raise ValueError("field %s declared with two types (%r, %r)" % (f, self.fields[f], ty))
                self.fields[f] = ty
        self.spec_mode = 0
        self.polarity = 0
        self.goal_mode = False
        self.in_old = 0
        self.let_defs = {}
        self.entail_cache = {}
        self.entail_queries = 0
        self.cur_clause = None
        self.skolems = []
        self.old_state = None
        self.path_counter = 0
        self._uf = {}

    # -- notes -------------------------------------------------------------
    def note(self, text):
        if text not in self.notes:
            self.notes.append(text)

    # -- classes -----------------------------------------------------------
    def class_id(self, name):
        if name not in self.class_ids:
            self.class_ids[name] = len(self.class_ids) + 1
        return smt.Int(self.class_ids[name])

    def mro(self, name):
        out, todo = [], [name]
        while todo:
            n = todo.pop(0)
            if n in out:
                continue
            out.append(n)
            todo += list(self.bases.get(n, ()))
        return out

    def is_subclass_name(self, a, b):
        return b in self.mro(a) or b == "object"

    def cls_sv(self, name):
        return SV(TCLS, [self.class_id(name)], py=name)

    def issub_term(self, cls_term, name):
        """Bool term: class with id cls_term is a subclass of `name`"""
        if smt.is_const(cls_term):
            cid = smt.const_val(cls_term)
            for n, i in self.class_ids.items():
                if i == cid:
                    return smt.Bool(self.is_subclass_name(n, name))
        self.ctx.fun("issub", [INT, INT], BOOL)
        return smt.app("issub", BOOL, cls_term, self.class_id(name))

    def typeof(self, ref_t):
        self.ctx.fun("typeof", [INT], INT)
        return smt.app("typeof", INT, ref_t)

    def exc_symbolic(self, st, base="Exception", tag="exc"):
        """a fresh exception of unknown class below `base`"""
        c = self.ctx.fresh(tag + "_cls", INT)
        st.assume(self.issub_term(c, base))
        # closure under the hierarchy, for the exception classes this function can tell apart
        for n in sorted(self.relevant_exceptions()):
            for b in self.bases.get(n, ()):
                st.assume(smt.Implies(self.issub_term(c, n), self.issub_term(c, b)))
        return Exc(None, c)

    def relevant_exceptions(self):
        if getattr(self, "_relevant_exc", None) is None:
            names = set(k.split("!")[0] for k in self.contract.raises if k.split("!")[0] in self.bases)
            for k in self.contract.raises:
                names |= {x for x in k.split("!")[1:] if x in self.bases}
            for n in ast.walk(self.found.node):
                if isinstance(n, ast.ExceptHandler) and n.type is not None:
                    for x in (n.type.elts if isinstance(n.type, ast.Tuple) else [n.type]):
                        nm = x.id if isinstance(x, ast.Name) else getattr(x, "attr", None)
                        if nm in self.bases:
                            names.add(nm)
            for cid in list(self.callee_exc_names):
                names.add(cid)
            out = set()
            for n in names:
                out |= {m for m in self.mro(n) if m in self.bases}
            self._relevant_exc = out
        return self._relevant_exc

    def exc_matches(self, exc, names):
        """Bool term: exception is caught by a handler naming `names`"""
        if exc.name is not None:
            return smt.Bool(any(self.is_subclass_name(exc.name, n) for n in names))
        return smt.Or(*[self.issub_term(exc.cls_term, n) for n in names])

    # -- uninterpreted functions ------------------------------------------
    def uf(self, name, args, sort):
        name = "uf_" + "".join(ch if ch.isalnum() or ch == "_" else "_" for ch in name)
        key = (name, tuple(a.sort for a in args), sort)
        nm = self._uf.get(key)
        if nm is None:
            nm = name if not any(k[0] == name for k in self._uf) else "%s_%d" % (name, len(self._uf))
            self._uf[key] = nm
            self.ctx.fun(nm, [a.sort for a in args], sort)
        if not args:
            return T(nm, sort)
        return smt.app(nm, sort, *args)

    def to_u(self, v):
        """inject any value into the opaque sort"""
        if v.ty.kind == "any":
            return v.ts[0]
        if not v.ts:
            return T("u!none", U)
        if v.ty.kind == "opt":
            # an Optional that holds a value is injected like the value itself (narrowed and un-narrowed uses agree)
            return smt.Ite(v.ts[0], T("u!none", U), self.to_u(opt_inner(v)))
        if len(v.ts) == 1:
            return self.uf("inj_" + v.ts[0].sort, [v.ts[0]], U)
        return self.uf("inj_" + v.ty.kind + str(len(v.ts)), v.ts, U)

    def opaque(self, name, args=(), st=None):
        ts = [self.to_u(a) for a in args]
        return SV(TANY, [self.uf(name, ts, U)])

    def fresh_sv(self, ty, base, st=None):
        ts = [self.ctx.fresh(base, s) for s in flatten(ty)]
        v = SV(ty, ts)
        if st is not None:
            for t in self.wf(v, st):
                st.assume(t)
        return v

    def wf(self, v, st=None):
        """well-formedness facts of a fresh value"""
        out = []
        k = v.ty.kind
        if k == "list" and len(v.ts) > 1:
            for t in v.ts[1:]:
                out.append(smt.Eq(smt.Len(t), smt.Len(v.ts[0])))
        if k == "tstr":
            out.append(smt.And(smt.Le(smt.Int(0), v.ts[1]), smt.Le(v.ts[1], smt.Int(2))))
        if k == "ref":
            out.append(smt.Gt(v.ts[0], smt.Int(0)))
            out.append(self.known_ref_fact(v.ts[0], st))
        if k == "list" and v.ty.args[0].kind == "ref":
            iv = T("i!al", INT)
            q = smt.Forall([("i!al", INT)], smt.Implies(smt.And(smt.Le(smt.Int(0), iv), smt.Lt(iv, smt.Len(v.ts[0]))),
                                                         self.known_ref_fact(smt.At(v.ts[0], iv), st)))
            if q.s != "true":
                self.ctx.qreg[q.s] = ("i!al", q.s[len("(forall ((i!al Int)) "):-1], INT)
            out.append(q)
        if k == "opt":
            inner = opt_inner(v)
            out += [smt.Implies(smt.Not(v.ts[0]), t) for t in self.wf(inner, st)]
        if k == "tuple":
            for it in tuple_items(v):
                out += self.wf(it, st)
        return out

    # -- coercion ----------------------------------------------------------
    def same_shape(self, a, b):
        if a.kind != b.kind or len(a.args) != len(b.args):
            return False
        return all(self.same_shape(x, y) for x, y in zip(a.args, b.args))

    def coerce(self, v, ty, st, why=""):
        if v.ty == ty:
            return v
        if self.same_shape(v.ty, ty):
            return SV(ty, v.ts, v.py)
        a, b = v.ty.kind, ty.kind
        if b == "any":
            return SV(TANY, [self.to_u(v)])
        if a == "bool" and b == "int":
            return mk_int(smt.Ite(v.t, smt.Int(1), smt.Int(0)))
        if a == "str" and b == "tstr":
            return mk_tstr(v.t, 0)
        if a == "tstr" and b == "str":
            return mk_str(v.ts[0])
        if a == "ref" and b == "ref":
            return SV(ty, v.ts)
        if a == "cls" and b == "cls":
            return v
        if b == "opt":
            inner = ty.args[0]
            if a == "none":
                return opt_none(inner)
            if a == "opt":
                iv = self.coerce(opt_inner(v), inner, st, why)
                return SV(ty, [v.ts[0]] + iv.ts)
            iv = self.coerce(v, inner, st, why)
            return SV(ty, [smt.FALSE] + iv.ts)
        if a == "opt":
            # implicit unwrap: None here would be a TypeError/AttributeError
            self.require_noexc(st, smt.Not(v.ts[0]), "TypeError", "none_used_as_%s%s" % (b, why))
            return self.coerce(opt_inner(v), ty, st, why)
        if a == "dict" and b == "dict" and v.ty.args[0].kind == "unknown":
            return self.empty_dict(ty)
        if a == "list" and b == "list":
            if v.ty.args[0].kind == "opt" and (v.ty.args[0].args[0] == ty.args[0] or (v.ty.args[0].args[0].kind == "ref" and ty.args[0].kind == "ref")):
                # list of Optional[T] used as list of T: no element may be None
                n = smt.Len(v.ts[0])
                iv = T("i!nn", INT)
                self.require_noexc(st, smt.Forall([("i!nn", INT)], smt.Implies(smt.And(smt.Le(smt.Int(0), iv), smt.Lt(iv, n)), smt.Not(smt.At(v.ts[0], iv)))),
                                   "TypeError", "none_in_list")
                return SV(ty, v.ts[1:])
            if v.ty.args[0].kind == "unknown":
                return SV(ty, [smt.EmptySeq(smt.elem_sort(s)) for s in flatten(ty)])
            if v.ty.args[0].kind == "str" and ty.args[0].kind == "tstr":
                n = smt.Len(v.ts[0])
                tags = self.ctx.fresh("tags", smt.seq(INT))
                i = ("i!c", INT)
                st.assume(smt.Eq(smt.Len(tags), n))
                st.assume(smt.Forall([i], smt.Implies(smt.And(smt.Le(smt.Int(0), T("i!c", INT)), smt.Lt(T("i!c", INT), n)), smt.Eq(smt.At(tags, T("i!c", INT)), smt.Int(0)))))
                return SV(ty, [v.ts[0], tags])
            if v.ty.args[0].kind == "tstr" and ty.args[0].kind == "str":
                return SV(ty, [v.ts[0]])
            if v.ty.args[0].kind == "ref" and ty.args[0].kind == "ref":
                return SV(ty, v.ts)
            if ty.args[0].kind == "any" and v.ty.args[0].kind not in ("unknown", "any"):
                # list of T stored where a list of arbitrary values is expected: the same length, every element injected
                n = smt.Len(v.ts[0])
                out = self.ctx.fresh("anylist", smt.seq(U))
                self.qcount = getattr(self, "qcount", 0) + 1
                kn = "i!al%d" % self.qcount
                iv = T(kn, INT)
                item = SV(v.ty.args[0], [smt.At(c, iv) for c in v.ts])
                st.assume(smt.Eq(smt.Len(out), n))
                st.assume(smt.Forall([(kn, INT)], smt.Implies(smt.And(smt.Le(smt.Int(0), iv), smt.Lt(iv, n)), smt.Eq(smt.At(out, iv), self.to_u(item)))))
                return SV(ty, [out])
            if v.ty.args[0].kind == "ref" and ty.args[0].kind == "opt" and ty.args[0].args[0].kind == "ref":
                n = smt.Len(v.ts[0])
                flags = self.ctx.fresh("nn_flags", smt.seq(BOOL))
                iv = T("i!nf", INT)
                st.assume(smt.Eq(smt.Len(flags), n))
                st.assume(smt.Forall([("i!nf", INT)], smt.Implies(smt.And(smt.Le(smt.Int(0), iv), smt.Lt(iv, n)), smt.Not(smt.At(flags, iv)))))
                return SV(ty, [flags] + v.ts)
        if a == "tuple" and b == "tuple" and len(v.ty.args) == len(ty.args):
            return mk_tuple([self.coerce(x, t, st, why) for x, t in zip(tuple_items(v), ty.args)])
        if a == "any":
            # an opaque value used at a concrete type: project through an uninterpreted function
            self.note("opaque value projected to %r%s" % (ty, why))
            ts = [self.uf("proj_%s_%d" % (ty.kind, k), [v.ts[0]], s) for k, s in enumerate(flatten(ty))]
            out = SV(ty, ts)
            for t in self.wf(out):
                st.assume(t)
            return out
        if a == "int" and b == "bool":
            return mk_bool(smt.Not(smt.Eq(v.t, smt.Int(0))))
        raise Unsupported("cannot coerce %r to %r %s" % (v.ty, ty, why))

    def join_types(self, a, b):
        if a == b:
            return a
        if a.kind == "ref" and b.kind == "ref":
            return Ref()
        if a.kind == "opt" and b.kind == "ref" and a.args[0].kind == "ref":
            return Opt(Ref())
        if b.kind == "opt" and a.kind == "ref" and b.args[0].kind == "ref":
            return Opt(Ref())
        if a.kind == "none":
            return Opt(b)
        if b.kind == "none":
            return Opt(a)
        if a.kind == "opt" and a.args[0] == b:
            return a
        if b.kind == "opt" and b.args[0] == a:
            return b
        if {a.kind, b.kind} == {"str", "tstr"}:
            return TTSTR
        if a.kind == "list" and a.args[0].kind == "unknown":
            return b
        if b.kind == "list" and b.args[0].kind == "unknown":
            return a
        if a.kind == "ref" and b.kind == "ref":
            return Ref()
        if a.kind == "opt" and b.kind == "opt":
            return Opt(self.join_types(a.args[0], b.args[0]))
        return TANY

    # -- truthiness --------------------------------------------------------
    def truthy(self, v, st=None):
        k = v.ty.kind
        if k == "bool":
            return v.t
        if k == "int":
            return smt.Not(smt.Eq(v.t, smt.Int(0)))
        if k in ("str", "tstr"):
            return smt.Not(smt.Eq(v.ts[0], smt.Str("")))
        if k == "none":
            return smt.FALSE
        if k == "opt":
            return smt.And(smt.Not(v.ts[0]), self.truthy(opt_inner(v)))
        if k == "list":
            if v.ty.args[0].kind == "unknown":
                return smt.FALSE
            return smt.Gt(smt.Len(v.ts[0]), smt.Int(0))
        if k == "dict" and v.ty.args[0].kind != "unknown":
            ks = flatten(v.ty.args[0])[0]
            return smt.Not(smt.Eq(v.ts[0], T("((as const %s) false)" % smt.arr(ks, BOOL), smt.arr(ks, BOOL))))
        if k == "tuple":
            return smt.Bool(len(v.ty.args) > 0)
        if k in ("ref", "cls"):
            return smt.TRUE
        if k == "any":
            self.ctx.fun("truthy", [U], BOOL)
            return smt.app("truthy", BOOL, v.ts[0])
        if k in ("func", "match", "regex"):
            return smt.TRUE
        if k == "optmatch":
            return smt.Not(v.ts[0])
        raise Unsupported("truthiness of %r" % (v.ty,))

    # -- cheap in-process entailment (used only to simplify terms; 'unsat' is the only answer acted on)
    def entails(self, st, goal, ms=200):
        if goal.s == "true":
            return True
        if goal.s == "false":
            return False
        key = (len(st.pc), hash(tuple(t.s for t in st.pc)), goal.s)
        if key in self.entail_cache:
            return self.entail_cache[key]
        res = False
        try:
            import z3
            txt = self.ctx.script(list(st.pc) + [smt.Not(goal)], keep_quantifiers=False, extra_terms=False)
            txt = txt.replace("(check-sat)", "")
            zctx = z3.Context()
            s = z3.Solver(ctx=zctx)
            s.set("timeout", ms)
            s.from_string(txt)
            res = s.check() == z3.unsat
        except Exception as ex:
            if os.environ.get("PYVC_DEBUG"):
                print("entails exception:", str(ex)[:300])
            res = False
        self.entail_cache[key] = res
        self.entail_queries += 1
        return res

    # -- obligations -------------------------------------------------------
    def oblige(self, st, goal, oid, kind, line=0, text="", skolems=()):
        if goal.s == "true":
            self.trivial += 1
            return
        ob = Obligation(oid, kind, st.pc, goal, line, text)
        ob.skolems = list(skolems)
        self.obligations.append(ob)
        st.assume(goal)

    def expects(self, st, excname):
        for hs in st.handlers:
            for h in hs:
                if self.is_subclass_name(excname, h):
                    return True
        for r in self.contract.raises:
            if r in self.bases and self.is_subclass_name(excname, r):
                return True
        return False

    def require_noexc(self, st, safe, excname, what, exc_sink=None):
        """The operation raises `excname` unless `safe`.  If the exception is
        expected here, fork; otherwise emit a 'no implicit exception' obligation."""
        if safe.s == "true":
            return
        if self.spec_mode:
            return
        if exc_sink is not None and self.expects(st, excname):
            bad = st.copy()
            bad.assume(smt.Not(safe))
            if not bad.infeasible():
                exc_sink.append(Outcome("raise", bad, Exc(excname)))
            st.assume(safe)
            return
        self.oblige(st, safe, "%s#noexc.%s.%s" % (self.short, excname, what), "noexc", self.curline)

    # -- heap --------------------------------------------------------------
    def field_type(self, f):
        return self.fields.get(f)

    def heap_arr(self, st, f):
        if f not in st.heap:
            ty = self.field_type(f) or TANY
            arrs = [self.ctx.const("H0_%s_%d" % (f, k), smt.arr(INT, s)) for k, s in enumerate(flatten(ty))]
            st.heap[f] = SV(ty, arrs)
        return st.heap[f]

    def heap_read(self, st, ref_t, f):
        h = self.heap_arr(st, f)
        v = SV(h.ty, [smt.Select(a, ref_t) for a in h.ts])
        if not self.spec_mode:
            if h.ty.kind == "ref":
                st.assume(self.known_ref_fact(v.ts[0], st))
            elif h.ty.kind == "opt" and h.ty.args[0].kind == "ref":
                st.assume(smt.Or(v.ts[0], self.known_ref_fact(v.ts[1], st)))
        return v

    def name_term(self, st, t, base="let", limit=300):
        """replace a large term by a fresh constant defined equal to it (keeps VC text linear)"""
        if len(t.s) <= limit:
            return t
        c = self.ctx.fresh(base, t.sort)
        st.assume(smt.Eq(c, t))
        self.let_defs[c.s] = smt.symbols(t.s)
        return c

    def name_sv(self, st, v, base="let"):
        if not isinstance(v, SV) or not v.ts or all(len(t.s) <= 300 for t in v.ts):
            return v
        return SV(v.ty, [self.name_term(st, t, base) for t in v.ts], v.py)

    def heap_write(self, st, ref_t, f, val):
        h = self.heap_arr(st, f)
        val = self.coerce(val, h.ty, st, " (field %s)" % f)
        st.heap[f] = self.name_sv(st, SV(h.ty, [smt.Store(a, ref_t, x) for a, x in zip(h.ts, val.ts)]), "H_" + f)

    def heap_havoc(self, st, f, at=None):
        h = self.heap_arr(st, f)
        if at is None:
            st.heap[f] = SV(h.ty, [self.ctx.fresh("H_%s" % f, a.sort) for a in h.ts])
        else:
            fresh = self.fresh_sv(h.ty, "hv_%s" % f)
            st.heap[f] = SV(h.ty, [smt.Store(a, at, x) for a, x in zip(h.ts, fresh.ts)])

    def alloc0(self, ref_t):
        """ref_t denoted an allocated object when the function was entered"""
        a = self.ctx.const("Alloc0", smt.arr(INT, BOOL))
        return smt.Select(a, ref_t)

    def new_ref(self, st, base):
        r = self.ctx.fresh(base, INT)
        st.assume(smt.Gt(r, smt.Int(0)))
        st.assume(smt.Not(self.alloc0(r)))
        for other in st.allocated:
            st.assume(smt.Not(smt.Eq(r, other)))
        st.allocated = st.allocated + (r,)
        return r

    def known_ref_fact(self, v, st=None):
        """A reference found in the entry state denotes an object allocated at entry; one found later,
        before any callee ran, is that or one of the objects this call created.  After a callee has
        run nothing is assumed (it may have created objects)."""
        if not self.contract.alloc_facts or (st is not None and st.calls > 0):
            return smt.TRUE
        news = st.allocated if st is not None else ()
        return smt.Or(self.alloc0(v), *[smt.Eq(v, n) for n in news])

    def alloc(self, st, clsname):
        r = self.new_ref(st, "new_%s" % clsname)
        st.assume(smt.Eq(self.typeof(r), self.class_id(clsname)))
        return SV(Ref(clsname), [r])

    def known_refs(self, st):
        out = list(st.allocated)
        for v in st.env.values():
            if isinstance(v, SV) and v.ty.kind == "ref":
                out.append(v.ts[0])
        return out
