"""Term layer: sorted s-expressions printed as SMT-LIB 2.6.

Terms are immutable (sexpr string, sort string).  A Context collects
declarations, definitions and global axioms; scripts are assembled per
obligation with only the declarations that the asserted formulas mention.
"""
import re

INT, BOOL, STR, U = "Int", "Bool", "String", "U"


def seq(s):
    return "(Seq %s)" % s


def arr(k, v):
    return "(Array %s %s)" % (k, v)


class T:
    __slots__ = ("s", "sort")

    def __init__(self, s, sort):
        self.s = s
        self.sort = sort

    def __repr__(self):
        return "T(%s:%s)" % (self.s, self.sort)

    def __eq__(self, other):
        return isinstance(other, T) and self.s == other.s and self.sort == other.sort

    def __hash__(self):
        return hash((self.s, self.sort))


TRUE = T("true", BOOL)
FALSE = T("false", BOOL)


def Int(n):
    n = int(n)
    return T(str(n) if n >= 0 else "(- %d)" % (-n), INT)


def Bool(b):
    return TRUE if b else FALSE


def Str(py):
    out = []
    for ch in py:
        o = ord(ch)
        if ch == '"':
            out.append('""')
        elif ch == "\\":
            out.append("\\u{5c}")
        elif 32 <= o < 127:
            out.append(ch)
        else:
            out.append("\\u{%x}" % o)
    return T('"%s"' % "".join(out), STR)


def is_const(t):
    if t.sort == INT:
        return re.fullmatch(r"\d+|\(- \d+\)", t.s) is not None
    if t.sort == BOOL:
        return t.s in ("true", "false")
    if t.sort == STR:
        return t.s.startswith('"')
    return False


def const_val(t):
    if t.sort == INT:
        return int(t.s) if t.s[0] != "(" else -int(t.s[3:-1])
    if t.sort == BOOL:
        return t.s == "true"
    if t.sort == STR:
        body = t.s[1:-1].replace('""', '"')
        return re.sub(r"\\u\{([0-9a-f]+)\}", lambda m: chr(int(m.group(1), 16)), body)
    raise ValueError(t)


def app(op, sort, *args):
    return T("(%s %s)" % (op, " ".join(a.s for a in args)), sort)


def And(*xs):
    flat = []
    for x in xs:
        if x.s == "true":
            continue
        if x.s == "false":
            return FALSE
        flat.append(x)
    if not flat:
        return TRUE
    if len(flat) == 1:
        return flat[0]
    return app("and", BOOL, *flat)


def Or(*xs):
    flat = []
    for x in xs:
        if x.s == "false":
            continue
        if x.s == "true":
            return TRUE
        flat.append(x)
    if not flat:
        return FALSE
    if len(flat) == 1:
        return flat[0]
    return app("or", BOOL, *flat)


def Not(x):
    if x.s == "true":
        return FALSE
    if x.s == "false":
        return TRUE
    if x.s.startswith("(not ") and x.s.endswith(")"):
        inner = x.s[5:-1]
        # only strip if balanced (it is, by construction)
        return T(inner, BOOL)
    return app("not", BOOL, x)


def Implies(a, b):
    if a.s == "true":
        return b
    if a.s == "false" or b.s == "true":
        return TRUE
    return app("=>", BOOL, a, b)


def Ite(c, a, b):
    if c.s == "true":
        return a
    if c.s == "false":
        return b
    if a == b:
        return a
    assert a.sort == b.sort, (a, b)
    return app("ite", a.sort, c, a, b)


def Eq(a, b):
    assert a.sort == b.sort, (a, b)
    if a.s == b.s:
        return TRUE
    if is_const(a) and is_const(b):
        return Bool(const_val(a) == const_val(b))
    return app("=", BOOL, a, b)


def _arith(op, a, b, f):
    if is_const(a) and is_const(b):
        return Int(f(const_val(a), const_val(b)))
    return app(op, INT, a, b)


def Add(a, b):
    if is_const(b) and const_val(b) == 0:
        return a
    if is_const(a) and const_val(a) == 0:
        return b
    return _arith("+", a, b, lambda x, y: x + y)


def Sub(a, b):
    if is_const(b) and const_val(b) == 0:
        return a
    return _arith("-", a, b, lambda x, y: x - y)


def Mul(a, b):
    return _arith("*", a, b, lambda x, y: x * y)


def _cmp(op, a, b, f):
    if is_const(a) and is_const(b):
        return Bool(f(const_val(a), const_val(b)))
    return app(op, BOOL, a, b)


def Lt(a, b):
    return _cmp("<", a, b, lambda x, y: x < y)


def Le(a, b):
    return _cmp("<=", a, b, lambda x, y: x <= y)


def Gt(a, b):
    return Lt(b, a)


def Ge(a, b):
    return Le(b, a)


def Max(a, b):
    return Ite(Ge(a, b), a, b)


def Min(a, b):
    return Ite(Le(a, b), a, b)


# strings / sequences -------------------------------------------------------

def Len(x):
    if x.sort == STR:
        if is_const(x):
            return Int(len(const_val(x)))
        return app("str.len", INT, x)
    return app("seq.len", INT, x)


def elem_sort(seqsort):
    assert seqsort.startswith("(Seq "), seqsort
    return seqsort[5:-1]


def Concat(a, b):
    assert a.sort == b.sort, (a, b)
    if a.sort == STR:
        if is_const(a) and is_const(b):
            return Str(const_val(a) + const_val(b))
        if a.s == '""':
            return b
        if b.s == '""':
            return a
        return app("str.++", STR, a, b)
    if a.s.startswith("(as seq.empty"):
        return b
    if b.s.startswith("(as seq.empty"):
        return a
    return app("seq.++", a.sort, a, b)


def Substr(x, start, length):
    """x[start:start+length] with SMT semantics (empty when out of range)."""
    if x.sort == STR:
        if is_const(x) and is_const(start) and is_const(length):
            s, a, n = const_val(x), const_val(start), const_val(length)
            if a < 0 or a >= len(s) or n <= 0:
                return Str("")
            return Str(s[a:a + n])
        return app("str.substr", STR, x, start, length)
    return app("seq.extract", x.sort, x, start, length)


def At(x, i):
    """single-element string / sequence element"""
    if x.sort == STR:
        if is_const(x) and is_const(i):
            s, k = const_val(x), const_val(i)
            return Str(s[k] if 0 <= k < len(s) else "")
        return app("str.at", STR, x, i)
    return app("seq.nth", elem_sort(x.sort), x, i)


def Unit(x):
    return app("seq.unit", seq(x.sort), x)


def EmptySeq(elsort):
    return T("(as seq.empty %s)" % seq(elsort), seq(elsort))


def Contains(hay, needle):
    if hay.sort == STR:
        if is_const(hay) and is_const(needle):
            return Bool(const_val(needle) in const_val(hay))
        return app("str.contains", BOOL, hay, needle)
    return app("seq.contains", BOOL, hay, needle)


def Select(a, i):
    vs = a.sort[len("(Array "):-1]
    # value sort = everything after the key sort
    ks, vsort = split_sorts(vs)
    return app("select", vsort, a, i)


def Store(a, i, v):
    return app("store", a.sort, a, i, v)


def split_sorts(two):
    """split 'K V' where each may be parenthesised"""
    depth = 0
    for idx, ch in enumerate(two):
        if ch == "(":
            depth += 1
        elif ch == ")":
            depth -= 1
        elif ch == " " and depth == 0:
            return two[:idx], two[idx + 1:]
    raise ValueError(two)


def Forall(vars_, body):
    """vars_: list of (name, sort)"""
    if body.s == "true":
        return TRUE
    return T("(forall (%s) %s)" % (" ".join("(%s %s)" % v for v in vars_), body.s), BOOL)


def Exists(vars_, body):
    return T("(exists (%s) %s)" % (" ".join("(%s %s)" % v for v in vars_), body.s), BOOL)


_TOKEN = re.compile(r'"(?:[^"]|"")*"|[^\s()"]+')


def symbols(text):
    """identifiers occurring in an s-expression (string literals skipped)"""
    return {m.group(0) for m in _TOKEN.finditer(text) if not m.group(0).startswith('"')}


class Context:
    """Declarations for one verification unit."""

    def __init__(self):
        self.decls = {}     # name -> (text, deps)
        self.order = []
        self.axioms = []    # (text, symbols) always-included if all symbols declared & used
        self.counter = 0
        self.sorts = {"U"}
        self.fact_tag = {}  # assumed invariant text -> invariant name
        self.recdefs = {}   # recursive definitions: name -> (params, sort, body text)
        self.qtag = {}      # forall text -> name of the clause it came from
        self.qreg = {}      # forall text -> (bound variable, inner text) for instantiation

    def fresh(self, base, sort):
        self.counter += 1
        name = "%s!%d" % (re.sub(r"[^A-Za-z0-9_.]", "_", base), self.counter)
        return self.const(name, sort)

    def const(self, name, sort):
        if name not in self.decls:
            self.decls[name] = ("(declare-fun %s () %s)" % (name, sort), set())
            self.order.append(name)
        return T(name, sort)

    def fun(self, name, argsorts, sort):
        if name not in self.decls:
            self.decls[name] = ("(declare-fun %s (%s) %s)" % (name, " ".join(argsorts), sort), set())
            self.order.append(name)
        return name

    def define(self, name, params, sort, body_s, rec=False):
        """params: list of (name, sort)"""
        if name in self.decls:
            return name
        if rec:
            self.recdefs[name] = (list(params), sort, body_s)
        kw = "define-fun-rec" if rec else "define-fun"
        text = "(%s %s (%s) %s %s)" % (kw, name, " ".join("(%s %s)" % p for p in params), sort, body_s)
        deps = symbols(body_s) - {p[0] for p in params} - {name}
        self.decls[name] = (text, deps)
        self.order.append(name)
        return name

    def axiom(self, term):
        self.axioms.append((term.s, symbols(term.s)))

    def instantiate(self, text, terms, keep=True, only_tag=None):
        """add instances of registered universal hypotheses occurring in text;
        with keep=False the quantified hypothesis itself is dropped (weaker, quantifier-free)"""
        if "(forall" not in text:
            return text
        # longest first so that nested registered quantifiers are handled inside-out safely
        for q in sorted(self.qreg, key=len, reverse=True):
            if q in text:
                v, inner, vsort = self.qreg[q]
                if only_tag is not None and self.qtag.get(q) not in (None, only_tag):
                    text = text.replace(q, "true")      # hypothesis dropped in the focused stage
                    continue
                pat = re.compile(r"(?<![\w!.])" + re.escape(v) + r"(?![\w!.])")
                insts = [pat.sub(lambda m, t=t: t[0], inner) for t in terms if t[1] == vsort]
                parts = ([q] if keep else []) + insts
                text = text.replace(q, "(and true %s)" % " ".join(parts))
        return text

    def applications(self, text, fname):
        """argument lists (as texts) of the applications of fname occurring in text"""
        out = []
        key = "(" + fname + " "
        pos = text.find(key)
        while pos != -1:
            i = pos + len(key)
            args, depth, cur, instr = [], 0, "", False
            while i < len(text):
                ch = text[i]
                if instr:
                    cur += ch
                    if ch == '"':
                        if i + 1 < len(text) and text[i + 1] == '"':
                            cur += '"'
                            i += 1
                        else:
                            instr = False
                elif ch == '"':
                    instr = True
                    cur += ch
                elif ch == "(":
                    depth += 1
                    cur += ch
                elif ch == ")":
                    if depth == 0:
                        if cur.strip():
                            args.append(cur.strip())
                        break
                    depth -= 1
                    cur += ch
                elif ch == " " and depth == 0:
                    if cur.strip():
                        args.append(cur.strip())
                    cur = ""
                else:
                    cur += ch
                i += 1
            out.append(tuple(args))
            pos = text.find(key, pos + 1)
        return out

    def unfoldings(self, texts, depth=2):
        """one-level unfolding instances of the recursive definitions at the application terms
        occurring in texts (consequences of the definitions)"""
        seen = set()
        out = []
        frontier = list(texts)
        for _ in range(depth):
            new = []
            blob = " ".join(frontier)
            for fname, (params, sort, body) in self.recdefs.items():
                for args in set(self.applications(blob, fname)):
                    if len(args) != len(params) or (fname, args) in seen:
                        continue
                    seen.add((fname, args))
                    inst = body
                    # simultaneous substitution of the parameters
                    pat = re.compile(r"(?<![\w!.])(" + "|".join(re.escape(p[0]) for p in params) + r")(?![\w!.])")
                    m = {p[0]: a for p, a in zip(params, args)}
                    inst = pat.sub(lambda mm: m[mm.group(1)], body)
                    eq = "(= (%s %s) %s)" % (fname, " ".join(args), inst)
                    out.append(eq)
                    new.append(eq)
            frontier = new
            if not new:
                break
        return out

    def script(self, asserts, get_values=(), logic="ALL", inst_terms=(), keep_quantifiers=True, extra_terms=True, only_tag=None, unfold=False):
        """asserts: list of T (Bool). Only needed declarations are emitted.
        The last assert is the negated goal and is never weakened."""
        terms = [(t.s, t.sort) if isinstance(t, T) else (t, INT) for t in inst_terms]
        if any("(forall" in a.s for a in asserts[:-1]):
            blob = " ".join(a.s for a in asserts)
            terms += [(x, INT) for x in sorted(set(re.findall(r"(?<![\w!.])inst_[\w!.]+", blob)))]
        if extra_terms and (terms or any("(forall" in a.s for a in asserts[:-1])):
            # further instantiation candidates: last positions of sequences, neighbours of skolems
            blob = " ".join(a.s for a in asserts)
            extra = set(re.findall(r"\(- \(seq\.len [^\s()]+\) 1\)", blob))
            extra |= set(re.findall(r"(?<![\w!.])inst_[\w!.]+", blob))
            for t, srt in list(terms):
                if srt == INT and not t.startswith("inst_"):
                    extra.add("(- %s 1)" % t)
                    extra.add("(+ %s 1)" % t)
            terms += [(x, INT) for x in sorted(extra)[:12] + ["0"]]
        texts = [self.instantiate(a.s, terms, keep_quantifiers, only_tag) for a in asserts[:-1]] + [asserts[-1].s]
        used = set()
        for t in texts:
            used |= symbols(t)
        # transitively add deps of definitions and axioms triggered by used symbols
        changed = True
        ax_in = set()
        while changed:
            changed = False
            for name in list(used):
                d = self.decls.get(name)
                if d:
                    new = d[1] - used
                    if new:
                        used |= new
                        changed = True
            for k, (txt, syms) in enumerate(self.axioms):
                if k in ax_in:
                    continue
                declared = {s for s in syms if s in self.decls}
                if declared and declared <= used:
                    ax_in.add(k)
                    new = syms - used
                    if new:
                        used |= new
                    changed = True
        out = ["(set-logic %s)" % logic, "(declare-sort U 0)", "(declare-fun u!none () U)"]
        unf = []
        if unfold and self.recdefs:
            unf = self.unfoldings(texts)
            for t in unf:
                used |= symbols(t)
        for name in self.order:
            if name in used:
                if unfold and name in self.recdefs:
                    params, sort, _ = self.recdefs[name]
                    out.append("(declare-fun %s (%s) %s)" % (name, " ".join(p[1] for p in params), sort))
                else:
                    out.append(self.decls[name][0])
        for t in unf:
            out.append("(assert %s)" % t)
        for k in sorted(ax_in):
            out.append("(assert %s)" % self.axioms[k][0])
        for t in texts:
            out.append("(assert %s)" % t)
        out.append("(check-sat)")
        if get_values:
            out.append("(get-value (%s))" % " ".join(get_values))
        return "\n".join(out) + "\n"
