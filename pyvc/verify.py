"""Developer CLI: python3-vt -m pyvc.verify <contract-id-substring>... [-v] [--dump DIR]"""
import os
import sys
import time
sys.path.insert(0, os.path.dirname(os.path.dirname(os.path.abspath(__file__))))
from pyvc import contracts as C, engine, discharge  # noqa


def main(argv):
    verbose = "-v" in argv
    dump = None
    if "--dump" in argv:
        dump = argv[argv.index("--dump") + 1]
        os.makedirs(dump, exist_ok=True)
    timeout = 10
    if "--timeout" in argv:
        timeout = int(argv[argv.index("--timeout") + 1])
    pats = [a for a in argv if not a.startswith("-") and a != dump and a != str(timeout)]
    C.load_all()
    ids = [k for k in C.CONTRACTS if any(p in k for p in pats) and not C.CONTRACTS[k].trusted and not C.CONTRACTS[k].bounded_only]
    rc = 0
    for fid in ids:
        t0 = time.time()
        g = engine.generate(C.CONTRACTS[fid])
        eng, obs = g["engine"], g["obligations"]
        print("== %s: %d obligations (%d trivial), gen %.2fs%s" % (
            fid, len(obs), getattr(eng, "trivial", 0), g["seconds"], "  ERROR " + g["error"] if g["error"] else ""))
        if eng is None:
            rc = 3
            continue
        res = discharge.discharge(eng, obs, timeout_s=timeout)
        by = {}
        for r in res:
            by.setdefault(r["ob"].oid, []).append(r)
        for oid, rs in by.items():
            sts = {r["status"] for r in rs}
            st = "refuted" if "refuted" in sts else "undecided" if "undecided" in sts else "proved"
            if st != "proved" or verbose:
                print("   %-9s %s  (%d paths, %.2fs, %s)" % (st, oid, len(rs), sum(r["seconds"] for r in rs),
                                                          ",".join(sorted({str(r["solver"]) for r in rs}))))
            if st != "proved":
                rc = max(rc, 1)
                for k, r in enumerate(rs):
                    if r["status"] != "proved":
                        print("      path %d line %d: %s  %s %s" % (k, r["ob"].line, r["status"], r["per_solver"], r["ob"].text[:100]))
                        if any(v[0] == "error" for v in r["per_solver"].values()):
                            print("      solver output:", r["output"][:600].replace("\n", " | "))
                        if dump:
                            with open(os.path.join(dump, "%s.%d.smt2" % (oid.replace("/", "_").replace(":", "_"), k)), "w") as f:
                                f.write(discharge.script_for(eng, r["ob"]))
        if verbose:
            for n in eng.notes:
                print("   note:", n)
        print("   total %.2fs, paths=%d exits=%s" % (time.time() - t0, eng.paths, eng.exits))
    return rc


if __name__ == "__main__":
    sys.exit(main(sys.argv[1:]))
