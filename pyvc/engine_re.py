"""Abstract model of compiled regular expressions.

A pattern is identified by an Int term (module-level patterns by a constant,
pattern-valued parameters by themselves).  `p.match(s)` / `p.search(s)`
return an Optional match object; whether it matches and where its groups
lie are uninterpreted functions of (pattern, subject), constrained by
general facts (group bounds, group text = slice) and by pattern-specific
axioms stated in the sidecar (assume= clauses using re_matched / re_start /
re_end / re_group), each of which is validated against CPython `re`.
"""
import ast
import re
from . import smt
from .smt import T, INT, BOOL, STR, U
from .values import *  # noqa
from .values import SV, Ty, Unsupported

TREGEX = Ty("regex")


class ReMixin:
    def scan_module_patterns(self):
        """module-level NAME = re.compile(...)[.match|.search|.findall|...]"""
        self.modpatterns = {}
        for n in self.found.tree.body:
            if isinstance(n, ast.Assign) and len(n.targets) == 1 and isinstance(n.targets[0], ast.Name):
                v, meth = n.value, None
                if isinstance(v, ast.Attribute) and isinstance(v.value, ast.Call):
                    v, meth = v.value, v.attr
                if isinstance(v, ast.Call) and ast.unparse(v.func) in ("re.compile",):
                    self.modpatterns[n.targets[0].id] = meth

    def pattern_id(self, name):
        return smt.Int(10000 + self.class_ids.setdefault("re:" + name, len(self.class_ids) + 1))

    def regex_sv(self, name, meth=None):
        return SV(TREGEX, [self.pattern_id(name)], py=("regex", name, meth))

    def gkey(self, g):
        if isinstance(g, int):
            return "g%d" % g
        return "n_" + re.sub(r"\W", "_", g)

    def re_matched(self, pid, s, kind="match"):
        self.ctx.fun("re_%s" % kind, [INT, STR], BOOL)
        return smt.app("re_%s" % kind, BOOL, pid, s)

    def re_pos(self, which, pid, s, g, kind="match"):
        fn = "re_%s_%s_%s" % (kind, which, self.gkey(g))
        self.ctx.fun(fn, [INT, STR], INT)
        return smt.app(fn, INT, pid, s)

    def re_facts(self, st, pid, s, g, kind="match"):
        key = (pid.s, s.s, self.gkey(g), kind)
        if key in self.re_cache:
            for f in self.re_cache[key]:
                if f not in st.pc:
                    st.assume(f)
            return
        mark = len(st.pc)
        self.re_cache[key] = []
        self._re_facts(st, pid, s, g, kind)
        self.re_cache[key] = list(st.pc[mark:])

    def _re_facts(self, st, pid, s, g, kind):
        a, b = self.re_pos("start", pid, s, g, kind), self.re_pos("end", pid, s, g, kind)
        n = smt.Len(s)
        ok = smt.And(smt.Le(smt.Int(0), a), smt.Le(a, b), smt.Le(b, n))
        if g == 0:
            st.assume(smt.Implies(self.re_matched(pid, s, kind), ok))
            if kind == "match":
                st.assume(smt.Implies(self.re_matched(pid, s, kind), smt.Eq(a, smt.Int(0))))
        else:
            # a group that did not participate has start == end == -1
            st.assume(smt.Implies(self.re_matched(pid, s, kind),
                                  smt.Or(ok, smt.And(smt.Eq(a, smt.Int(-1)), smt.Eq(b, smt.Int(-1))))))
            self.re_facts(st, pid, s, 0, kind)
            a0, b0 = self.re_pos("start", pid, s, 0, kind), self.re_pos("end", pid, s, 0, kind)
            st.assume(smt.Implies(smt.And(self.re_matched(pid, s, kind), smt.Ge(a, smt.Int(0))),
                                  smt.And(smt.Le(a0, a), smt.Le(b, b0))))

    def regex_call(self, rx, meth, pos, st, exc):
        """rx.match(s) / rx.search(s) / rx.findall(s) ..."""
        pid = rx.ts[0]
        if meth in ("match", "search", "fullmatch"):
            s = self.coerce(pos[0], TSTR, st).t
            self.re_facts(st, pid, s, 0, meth)
            m = SV(Ty("match"), [], py=(pid, s, meth))
            return SV(Ty("optmatch"), [smt.Not(self.re_matched(pid, s, meth))], py=(pid, s, meth))
        self.note("regex method %s abstracted" % meth)
        return self.opaque("re_" + meth, [SV(TINT, [pid])] + list(pos))

    def match_method(self, mv, name, pos, st, exc):
        pid, s, kind = mv.py
        if mv.ty.kind == "optmatch":
            self.require_noexc(st, smt.Not(mv.ts[0]), "AttributeError", "match_is_none", exc)
        g = 0
        if pos:
            a = pos[0]
            if a.ty.kind == "int" and smt.is_const(a.t):
                g = smt.const_val(a.t)
            elif a.ty.kind == "str" and smt.is_const(a.t):
                g = smt.const_val(a.t)
            else:
                raise Unsupported("symbolic group index")
        self.re_facts(st, pid, s, g, kind)
        if name == "start":
            return mk_int(self.re_pos("start", pid, s, g, kind))
        if name == "end":
            return mk_int(self.re_pos("end", pid, s, g, kind))
        if name == "group":
            a, b = self.re_pos("start", pid, s, g, kind), self.re_pos("end", pid, s, g, kind)
            txt = mk_str(smt.Substr(s, a, smt.Sub(b, a)))
            if g == 0:
                return txt
            # None when the group did not participate
            return SV(Opt(TSTR), [smt.Lt(a, smt.Int(0)), txt.t])
        if name == "span":
            return mk_tuple([mk_int(self.re_pos("start", pid, s, g, kind)), mk_int(self.re_pos("end", pid, s, g, kind))])
        raise Unsupported("match method %s" % name)

    def re_macro(self, n, e, st):
        """spec macros re_matched(pat, s[, kind]) re_start(pat, s, g) re_end(pat, s, g) re_group(pat, s, g)"""
        pat = e.args[0]
        if isinstance(pat, ast.Constant):
            pid = self.pattern_id(pat.value)
        else:
            pid = self.ev1(pat, st).ts[0]
        s = self.coerce(self.ev1(e.args[1], st), TSTR, st).t
        kind = "match"
        if n == "re_matched":
            if len(e.args) > 2:
                kind = e.args[2].value
            return mk_bool(self.re_matched(pid, s, kind))
        g = e.args[2].value
        if len(e.args) > 3:
            kind = e.args[3].value
        if n == "re_start":
            return mk_int(self.re_pos("start", pid, s, g, kind))
        if n == "re_end":
            return mk_int(self.re_pos("end", pid, s, g, kind))
        if n == "re_group":
            a, b = self.re_pos("start", pid, s, g, kind), self.re_pos("end", pid, s, g, kind)
            return mk_str(smt.Substr(s, a, smt.Sub(b, a)))
        raise Unsupported(n)
