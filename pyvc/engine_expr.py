"""Expression evaluation.  ev(e, st, exc) -> list of (state, SV).

In code mode implicit exceptions either fork into `exc` (when a handler or
the contract expects them) or become 'noexc' obligations.  In spec mode
evaluation is pure and never forks.
"""
import ast
import re
from . import smt
from .smt import T, INT, BOOL, STR, U
from .values import *  # noqa
from .values import SV, Ty, Unsupported
from .state import State, Exc, Outcome


def static_name(e):
    parts = []
    while isinstance(e, ast.Attribute):
        parts.append(e.attr)
        e = e.value
    if isinstance(e, ast.Name):
        parts.append(e.id)
        return ".".join(reversed(parts))
    return None


class ExprMixin:
    def clamp(self, x, n, st=None):
        if st is not None and not self.spec_mode and not smt.is_const(x):
            if self.entails(st, smt.And(smt.Le(smt.Int(0), x), smt.Le(x, n))):
                return x
        if smt.is_const(x):
            c = smt.const_val(x)
            if c >= 0:
                return smt.Min(x, n) if c > 0 else smt.Int(0)
            return smt.Max(smt.Add(n, x), smt.Int(0))
        self.ctx.define("pyclamp", [("x", INT), ("n", INT)], INT,
                        "(ite (< x 0) (ite (< (+ x n) 0) 0 (+ x n)) (ite (< x n) x n))")
        return smt.app("pyclamp", INT, x, n)

    def ev1(self, e, st):
        """spec-mode / pure evaluation: exactly one result"""
        self.spec_mode += 1
        try:
            res = self.ev(e, st, [])
        finally:
            self.spec_mode -= 1
        if len(res) != 1:
            raise Unsupported("spec expression forked: %s" % ast.unparse(e))
        return res[0][1]

    def ev(self, e, st, exc):
        if self.spec_mode and self.polarity != 0 and not _transparent(e):
            saved, self.polarity = self.polarity, 0
            try:
                return self.ev(e, st, exc)
            finally:
                self.polarity = saved
        self.curline = getattr(e, "lineno", self.curline)
        m = getattr(self, "ev_" + type(e).__name__, None)
        if m is None:
            if self.spec_mode:
                raise Unsupported("spec expression %s" % type(e).__name__)
            self.note("opaque expression %s at L%d" % (type(e).__name__, self.relline))
            return [(st, self.opaque("expr_%s_L%d" % (type(e).__name__, self.relline)))]
        return m(e, st, exc)

    def ev_seq(self, es, st, exc):
        """evaluate expressions left to right; list of (st, [values])"""
        acc = [(st, [])]
        for e in es:
            nxt = []
            for s, vs in acc:
                for s2, v in self.ev(e, s, exc):
                    nxt.append((s2, vs + [v]))
            acc = nxt
        return acc

    # -- atoms ---------------------------------------------------------------
    def const_sv(self, v):
        if v is None:
            return NONE
        if isinstance(v, bool):
            return mk_bool(v)
        if isinstance(v, int):
            return mk_int(v)
        if isinstance(v, str):
            return mk_str(v)
        if isinstance(v, (tuple, list)):
            items = [self.const_sv(x) for x in v]
            if isinstance(v, list) and items and all(i.ty == items[0].ty for i in items):
                return self.list_from(items)
            return mk_tuple(items)
        raise Unsupported("constant %r" % (v,))

    def ev_Constant(self, e, st, exc):
        if e.value is Ellipsis:
            raise Unsupported("Ellipsis")
        return [(st, self.const_sv(e.value))]

    def ev_Name(self, e, st, exc):
        n = e.id
        if n in st.env:
            return [(st, st.env[n])]
        if self.spec_mode and n == "result" and self.result_sv is not None:
            return [(st, self.result_sv)]
        return [(st, self.global_value(n, st))]

    def ghost_entry(self, g, st):
        """entry value of ghost variable g (deterministic names, so every state agrees on it)"""
        ty = parse_type(C.GHOSTS[g])
        ts = [self.ctx.const("g0_%s_%d" % (g, k), s) for k, s in enumerate(flatten(ty))]
        v = SV(ty, ts)
        for tt in self.wf(v):
            if tt not in st.pc:
                st.assume(tt)
        st.env[g] = v
        return v

    def global_value(self, n, st):
        if n in C.GHOSTS:
            return self.ghost_entry(n, st)
        if n in self.contract.bind:
            ty = parse_type(self.contract.bind[n])
            ts = [self.ctx.const("glob_%s_%d" % (n, k), s) for k, s in enumerate(flatten(ty))]
            v = SV(ty, ts)
            for t in self.wf(v):
                st.assume(t)
            return v
        if n in self.modconsts:
            return self.const_sv(self.modconsts[n])
        if n in self.modpatterns:
            return self.regex_sv(n, self.modpatterns[n])
        if n in ("True", "False", "None"):
            return self.const_sv({"True": True, "False": False, "None": None}[n])
        if n in self.bases or n in self.modclasses or n in STR_TAGS_ALL:
            return self.cls_sv(n)
        if n in C.SPECS or n in self.modfuncs or n in BUILTIN_NAMES:
            return SV(Ty("func"), [], py=n)
        self.note("opaque global %s" % n)
        return SV(TANY, [self.uf("glob_" + n, [], U)], py="glob:" + n)

    def ev_Attribute(self, e, st, exc):
        sn = static_name(e)
        if sn is not None and sn in self.contract.bind and sn.split(".")[0] not in st.env:
            ty = parse_type(self.contract.bind[sn])
            if ty.kind == "cls":
                return [(st, self.cls_sv(sn.split(".")[-1]))]
            return [(st, self.global_value(sn, st))]
        if sn is not None and sn.split(".")[0] not in st.env and sn.split(".")[0] not in self.contract.bind \
                and not (sn.split(".")[0] == "result" and self.result_sv is not None):
            last = sn.split(".")[-1]
            root = sn.split(".")[0]
            if root in ("di", "DynamicImport") or last in self.bases or last in C.CLASSES:
                if last[:1].isupper() or last in self.bases:
                    return [(st, self.cls_sv(last))]
            return [(st, SV(TANY, [self.uf("glob_" + sn, [], U)], py="glob:" + sn))]
        out = []
        for s, base in self.ev(e.value, st, exc):
            out.append((s, self.getattr_sv(s, base, e.attr, exc)))
        return out

    def getattr_sv(self, st, base, attr, exc):
        k = base.ty.kind
        if k == "opt":
            self.require_noexc(st, smt.Not(base.ts[0]), "AttributeError", "attr_%s_of_none" % attr, exc)
            base = opt_inner(base)
            k = base.ty.kind
        if k == "ref":
            # property defined by a contract?
            pnode = self.property_node(base.ty.cls, attr)
            prop = self.find_method(base.ty.cls, attr, want_property=True)
            if prop is None and pnode is not None:
                res = self.inline(pnode, [base], {}, st, exc)
                res = self.merge_values(res) if len(res) > 1 else res
                if len(res) == 1:
                    return res[0][1]
                # forked property body: join by ite on the path conditions
                k = len(st.pc)
                ty = res[0][1].ty
                for _, v in res[1:]:
                    ty = self.join_types(ty, v.ty)
                vals = [self.coerce(v, ty, s) for s, v in res]
                conds = [smt.And(*s.pc[k:]) for s, _ in res]
                cur = vals[-1]
                for c, v in zip(reversed(conds[:-1]), reversed(vals[:-1])):
                    cur = sv_ite(c, v, cur)
                return cur
            if prop is None and pnode is None and self.field_type(attr) is None:
                meth = self.find_method(base.ty.cls, attr)
                if meth is not None:
                    return SV(Ty("func"), [], py=("boundm", base, attr))     # bound method value (x = obj.method)
            if prop is not None:
                res = self.apply_contract(prop, [base], {}, st, exc, site="prop_" + attr)
                if len(res) != 1:
                    raise Unsupported("property %s forked" % attr)
                return res[0][1]
            if self.field_type(attr) is None:
                self.note("undeclared field .%s read as opaque" % attr)
            return self.heap_read(st, base.ts[0], attr)
        if k == "cls" and attr == "__name__":
            return SV(TSTR, [self.uf("clsname", [base.ts[0]], STR)])
        if k == "any":
            return self.opaque("attr_" + attr, [base])
        if k == "cls":
            return SV(TANY, [self.uf("clsattr_" + attr, [base.ts[0]], U)], py="clsattr:%s" % attr)
        raise Unsupported("attribute .%s of %r" % (attr, base.ty))

    # -- displays ------------------------------------------------------------
    def list_from(self, items, st=None):
        if not items:
            return SV(TEMPTY, [])
        ty = items[0].ty
        for it in items[1:]:
            ty = self.join_types(ty, it.ty)
        items = [self.coerce(it, ty, st) for it in items]
        lty = ListT(ty)
        comps = []
        for k, s in enumerate(flatten(ty)):
            acc = None
            for it in items:
                u = smt.Unit(it.ts[k])
                acc = u if acc is None else smt.Concat(acc, u)
            comps.append(acc)
        return SV(lty, comps)

    def ev_List(self, e, st, exc):
        out = []
        for s, vs in self.ev_seq(e.elts, st, exc):
            out.append((s, self.list_from(vs, s)))
        return out

    def ev_Tuple(self, e, st, exc):
        return [(s, mk_tuple(vs)) for s, vs in self.ev_seq(e.elts, st, exc)]

    def ev_Dict(self, e, st, exc):
        if e.keys:
            raise Unsupported("non-empty dict display")
        return [(st, SV(Ty("dict", (Ty("unknown"), Ty("unknown"))), []))]

    def ev_JoinedStr(self, e, st, exc):
        parts = []
        acc = [(st, smt.Str(""))]
        for v in e.values:
            nxt = []
            for s, cur in acc:
                if isinstance(v, ast.Constant):
                    nxt.append((s, smt.Concat(cur, smt.Str(v.value))))
                else:
                    for s2, val in self.ev(v.value, s, exc):
                        conv = "r" if v.conversion == ord("r") else "s"
                        nxt.append((s2, smt.Concat(cur, self.to_text(val, s2, conv))))
            acc = nxt
        return [(s, mk_str(t)) for s, t in acc]

    def to_text(self, v, st, conv="s"):
        """str(v) / repr(v) as a String term"""
        k = v.ty.kind
        if k == "opt":
            return smt.Ite(v.ts[0], smt.Str("None"), self.to_text(opt_inner(v), st, conv))
        if k == "none":
            return smt.Str("None")
        if conv == "s" and k in ("str", "tstr"):
            return v.ts[0]
        if k == "int":
            neg = smt.Lt(v.t, smt.Int(0))
            return smt.Ite(neg, smt.Concat(smt.Str("-"), smt.app("str.from_int", STR, smt.Sub(smt.Int(0), v.t))),
                           smt.app("str.from_int", STR, v.t))
        return self.uf("text_%s_%s" % (conv, k), [self.to_u(v)], STR)

    def percent_model(self, a, b, st, exc):
        """'fmt' % b for a constant format made of text, %s, %r and %%.  b a tuple or a sequence: one value per
        placeholder (TypeError otherwise); b anything else with one placeholder: that value (assumption recorded when
        the static type cannot exclude a tuple)"""
        if not smt.is_const(a.ts[0]):
            return None
        fmt = smt.const_val(a.ts[0])
        parts = re.split(r"(%[sr%])", fmt)
        if "%" in "".join(p for p in parts if p not in ("%s", "%r", "%%")):
            return None
        n = sum(1 for p in parts if p in ("%s", "%r"))
        kb = b.ty.kind
        if kb == "tuple":
            vals = tuple_items(b)
            if len(vals) != n:
                return None
        elif kb == "list" and b.ty.args[0].kind != "unknown":
            # tuple(seq): as many items as placeholders, else TypeError
            self.require_noexc(st, smt.Eq(smt.Len(b.ts[0]), smt.Int(n)), "TypeError", "format_arity", exc)
            vals = [SV(b.ty.args[0], [smt.At(c, smt.Int(i)) for c in b.ts]) for i in range(n)]
        elif n == 1:
            if kb in ("any", "opt"):
                self.note("operand of a one-placeholder % format assumed not to be a tuple")
            vals = [b]
        else:
            return None
        out = smt.Str("")
        i = 0
        for p in parts:
            if p in ("%s", "%r"):
                out = smt.Concat(out, self.to_text(vals[i], st, p[1]))
                i += 1
            elif p == "%%":
                out = smt.Concat(out, smt.Str("%"))
            elif p:
                out = smt.Concat(out, smt.Str(p))
        return mk_str(out)

    # -- operators -------------------------------------------------------------
    def ev_UnaryOp(self, e, st, exc):
        out = []
        if isinstance(e.op, ast.Not) and self.spec_mode:
            self.polarity = -self.polarity
            try:
                vals = self.ev(e.operand, st, exc)
            finally:
                self.polarity = -self.polarity
        else:
            vals = self.ev(e.operand, st, exc)
        for s, v in vals:
            if isinstance(e.op, ast.Not):
                out.append((s, mk_bool(smt.Not(self.truthy(v)))))
            elif isinstance(e.op, ast.USub):
                out.append((s, mk_int(smt.Sub(smt.Int(0), self.coerce(v, TINT, s).t))))
            else:
                raise Unsupported("unary %s" % type(e.op).__name__)
        return out

    def ev_BinOp(self, e, st, exc):
        out = []
        for s, (a, b) in self.ev_seq([e.left, e.right], st, exc):
            out.append((s, self.binop(e.op, a, b, s, exc)))
        return out

    def binop(self, op, a, b, st, exc):
        ka, kb = a.ty.kind, b.ty.kind
        if ka == "opt":
            a = self.coerce(a, a.ty.args[0], st)
            ka = a.ty.kind
        if kb == "opt":
            b = self.coerce(b, b.ty.args[0], st)
            kb = b.ty.kind
        if ka == "bool":
            a, ka = self.coerce(a, TINT, st), "int"
        if kb == "bool":
            b, kb = self.coerce(b, TINT, st), "int"
        name = type(op).__name__
        if ka == "int" and kb == "int":
            if name == "Add":
                return mk_int(smt.Add(a.t, b.t))
            if name == "Sub":
                return mk_int(smt.Sub(a.t, b.t))
            if name == "Mult":
                return mk_int(smt.Mul(a.t, b.t))
            if name in ("FloorDiv", "Mod"):
                self.require_noexc(st, smt.Not(smt.Eq(b.t, smt.Int(0))), "ZeroDivisionError", "div", exc)
                if smt.is_const(b.t) and smt.const_val(b.t) > 0:
                    # SMT div/mod agree with Python's floor semantics for positive divisors
                    return mk_int(smt.app("div" if name == "FloorDiv" else "mod", INT, a.t, b.t))
                raise Unsupported("division by non-constant or negative divisor")
        if ka in ("str", "tstr") and kb in ("str", "tstr") and name == "Add":
            return mk_str(smt.Concat(a.ts[0], b.ts[0]))
        if ka == "int" and kb in ("str", "tstr") and name == "Mult":
            a, b, ka, kb = b, a, kb, ka
        if ka in ("str", "tstr") and kb == "int" and name == "Mult":
            if smt.is_const(b.t) and smt.is_const(a.ts[0]):
                return mk_str(smt.const_val(a.ts[0]) * smt.const_val(b.t))
            raise Unsupported("symbolic string repetition")
        if ka in ("str", "tstr") and name == "Mod":
            r = self.percent_model(a, b, st, exc)
            if r is not None:
                return r
            return mk_str(self.uf("strformat", [a.ts[0], self.to_u(b)], STR))
        if ka == "list" and kb == "list" and name == "Add":
            if a.ty.args[0].kind == "unknown":
                return b
            if b.ty.args[0].kind == "unknown":
                return a
            ty = ListT(self.join_types(a.ty.args[0], b.ty.args[0]))
            a, b = self.coerce(a, ty, st), self.coerce(b, ty, st)
            return SV(ty, [smt.Concat(x, y) for x, y in zip(a.ts, b.ts)])
        if ka == "tuple" and kb == "tuple" and name == "Add":
            return mk_tuple(tuple_items(a) + tuple_items(b))
        if ka == "any" or kb == "any":
            return self.opaque("binop_" + name, [a, b])
        raise Unsupported("binop %s on %r, %r" % (name, a.ty, b.ty))

    def ev_BoolOp(self, e, st, exc):
        is_and = isinstance(e.op, ast.And)
        if self.spec_mode:
            vals = [self.ev(v, st, exc)[0][1] for v in e.values]
            if all(v.ty.kind == "bool" for v in vals):
                f = smt.And if is_and else smt.Or
                return [(st, mk_bool(f(*[v.t for v in vals])))]
            if any(v.ty.kind == "bool" for v in vals):
                # a clause mixing conditions with other values is a condition: only the truth of each operand counts
                f = smt.And if is_and else smt.Or
                return [(st, mk_bool(f(*[self.truthy(v) for v in vals])))]
            # value semantics: a and b -> b if a else a
            cur = vals[-1]
            for v in reversed(vals[:-1]):
                ty = self.join_types(v.ty, cur.ty)
                vv, cc = self.coerce(v, ty, st), self.coerce(cur, ty, st)
                c = self.truthy(v)
                cur = sv_ite(c, cc, vv) if is_and else sv_ite(c, vv, cc)
            return [(st, cur)]
        # code mode: fork on each operand (Python evaluates lazily)
        results = []
        frontier = [(st, None)]
        for idx, sub in enumerate(e.values):
            nxt = []
            for s, _ in frontier:
                for s2, v in self.ev(sub, s, exc):
                    if idx == len(e.values) - 1:
                        results.append((s2, v))
                        continue
                    c = self.truthy(v)
                    go, stop = (c, smt.Not(c)) if is_and else (smt.Not(c), c)
                    if go.s not in ("true", "false") and not self.contract.merge:
                        if self.entails(s2, go, ms=100):
                            go, stop = smt.TRUE, smt.FALSE
                        elif self.entails(s2, stop, ms=100):
                            go, stop = smt.FALSE, smt.TRUE
                    if stop.s != "false":
                        s_stop = s2.copy().assume(stop)
                        results.append((s_stop, v))
                    if go.s != "false":
                        nxt.append((s2.copy().assume(go), None))
            frontier = nxt
        return self.merge_values(results)

    def merge_values(self, results):
        """merge (state, value) pairs whose states differ only in the path condition"""
        results = [(s, v) for s, v in results if not s.infeasible()]
        if len(results) <= 1 or not self.contract.merge:
            return results
        base = results[0][0]
        for s, v in results[1:]:
            if s.env != base.env or s.heap != base.heap:
                return results
        # common prefix of pcs
        n = min(len(s.pc) for s, _ in results)
        k = 0
        while k < n and all(s.pc[k] == base.pc[k] for s, _ in results):
            k += 1
        ty = results[0][1].ty
        for _, v in results[1:]:
            ty = self.join_types(ty, v.ty)
        if ty.kind == "any" and any(v.ty.kind != "any" for _, v in results):
            return results
        st = base.copy()
        st.pc = base.pc[:k]
        conds = [smt.And(*s.pc[k:]) for s, _ in results]
        st.assume(smt.Or(*conds))
        vals = [self.coerce(v, ty, st) for _, v in results]
        cur = vals[-1]
        for c, v in zip(reversed(conds[:-1]), reversed(vals[:-1])):
            cur = sv_ite(c, v, cur)
        return [(st, cur)]

    def ev_IfExp(self, e, st, exc):
        if self.spec_mode:
            saved, self.polarity = self.polarity, 0
            try:
                c = self.truthy(self.ev(e.test, st, exc)[0][1])
            finally:
                self.polarity = saved
            a = self.ev(e.body, st, exc)[0][1]
            b = self.ev(e.orelse, st, exc)[0][1]
            ty = self.join_types(a.ty, b.ty)
            return [(st, sv_ite(c, self.coerce(a, ty, st), self.coerce(b, ty, st)))]
        out = []
        for s, c in self.ev_cond(e.test, st, exc):
            if c.s != "false":
                out += self.ev(e.body, s.copy().assume(c), exc)
            if c.s != "true":
                out += self.ev(e.orelse, s.copy().assume(smt.Not(c)), exc)
        return out

    def ev_cond(self, e, st, exc):
        """list of (state, Bool term)"""
        return [(s, self.truthy(v)) for s, v in self.ev(e, st, exc)]

    def ev_Compare(self, e, st, exc):
        out = []
        operands = [e.left] + list(e.comparators)
        for s, vs in self.ev_seq(operands, st, exc):
            conj = []
            for op, a, b in zip(e.ops, vs, vs[1:]):
                conj.append(self.compare(op, a, b, s, exc))
            out.append((s, mk_bool(smt.And(*conj))))
        return out

    def compare(self, op, a, b, st, exc):
        name = type(op).__name__
        if name in ("Eq", "Is"):
            return self.equal(a, b, st, identity=(name == "Is"))
        if name in ("NotEq", "IsNot"):
            return smt.Not(self.equal(a, b, st, identity=(name == "IsNot")))
        if name in ("In", "NotIn"):
            r = self.contains(b, a, st, exc)
            return r if name == "In" else smt.Not(r)
        ka, kb = a.ty.kind, b.ty.kind
        if ka in ("int", "bool", "opt") and kb in ("int", "bool", "opt"):
            x, y = self.coerce(a, TINT, st).t, self.coerce(b, TINT, st).t
            return {"Lt": smt.Lt, "LtE": smt.Le, "Gt": smt.Gt, "GtE": smt.Ge}[name](x, y)
        if ka in ("str", "tstr") and kb in ("str", "tstr"):
            x, y = a.ts[0], b.ts[0]
            if name == "Lt":
                return smt.app("str.<", BOOL, x, y)
            if name == "LtE":
                return smt.app("str.<=", BOOL, x, y)
            if name == "Gt":
                return smt.app("str.<", BOOL, y, x)
            return smt.app("str.<=", BOOL, y, x)
        if ka == "any" or kb == "any":
            return self.truthy(self.opaque("cmp_" + name, [a, b]))
        raise Unsupported("compare %s on %r, %r" % (name, a.ty, b.ty))

    def equal(self, a, b, st, identity=False):
        ka, kb = a.ty.kind, b.ty.kind
        if ka == "none" and kb == "none":
            return smt.TRUE
        if ka == "none":
            a, b, ka, kb = b, a, kb, ka
        if kb == "none":
            if ka in ("opt", "optmatch"):
                return a.ts[0]
            if ka == "match":
                return smt.FALSE
            if ka == "any":
                return smt.Eq(a.ts[0], T("u!none", U))
            return smt.FALSE
        if ka == "opt" and kb == "opt":
            ty = Opt(self.join_types(a.ty.args[0], b.ty.args[0]))
            return sv_eq(self.coerce(a, ty, st), self.coerce(b, ty, st))
        if ka == "opt":
            return smt.And(smt.Not(a.ts[0]), self.equal(opt_inner(a), b, st, identity))
        if kb == "opt":
            return smt.And(smt.Not(b.ts[0]), self.equal(a, opt_inner(b), st, identity))
        if ka in ("int", "bool") and kb in ("int", "bool"):
            if ka == kb:
                return smt.Eq(a.t, b.t)
            return smt.Eq(self.coerce(a, TINT, st).t, self.coerce(b, TINT, st).t)
        if ka in ("str", "tstr") and kb in ("str", "tstr"):
            return smt.Eq(a.ts[0], b.ts[0])
        if ka == "any" or kb == "any":
            return smt.Eq(self.to_u(a), self.to_u(b))
        if ka == kb == "list":
            if a.ty.args[0].kind == "unknown":
                return smt.Not(self.truthy(b))
            if b.ty.args[0].kind == "unknown":
                return smt.Not(self.truthy(a))
            ty = ListT(self.join_types(a.ty.args[0], b.ty.args[0]))
            return sv_eq(self.coerce(a, ty, st), self.coerce(b, ty, st))
        if ka == kb == "tuple":
            if len(a.ty.args) != len(b.ty.args):
                return smt.FALSE
            return smt.And(*[self.equal(x, y, st, identity) for x, y in zip(tuple_items(a), tuple_items(b))])
        if ka == kb and ka in ("ref", "cls"):
            return smt.Eq(a.ts[0], b.ts[0])
        if ka == kb == "func":
            return smt.Bool(a.py == b.py)
        if ka == kb == "dict":
            return sv_eq(a, b)
        return smt.FALSE  # values of different static kinds are never equal

    def contains(self, cont, x, st, exc):
        k = cont.ty.kind
        if k == "opt":
            cont = self.coerce(cont, cont.ty.args[0], st)
            k = cont.ty.kind
        if k in ("str", "tstr"):
            xs = self.coerce(x, TSTR, st)
            return smt.Contains(cont.ts[0], xs.t)
        if k == "tuple":
            return smt.Or(*[self.equal(x, it, st) for it in tuple_items(cont)])
        if k == "list":
            if cont.ty.args[0].kind == "unknown":
                return smt.FALSE
            el = cont.ty.args[0]
            if x.ty.kind == "opt" and el.kind != "opt":
                return smt.And(smt.Not(x.ts[0]), self.contains(cont, opt_inner(x), st, exc))
            xv = self.coerce(x, el, st)
            if len(cont.ts) == 1:
                return smt.Contains(cont.ts[0], smt.Unit(xv.ts[0]))
            i = self.ctx.fresh("k_in", INT)
            # existential by skolem is unsound for negation; use a quantifier
            iv = ("i!in", INT)
            it = T("i!in", INT)
            body = smt.And(smt.Le(smt.Int(0), it), smt.Lt(it, smt.Len(cont.ts[0])),
                           *[smt.Eq(smt.At(c, it), t) for c, t in zip(cont.ts, xv.ts)])
            return smt.Exists([iv], body)
        if k == "dict":
            if cont.ty.args[0].kind == "unknown":
                return smt.FALSE
            xv = self.coerce(x, cont.ty.args[0], st)
            return smt.Select(cont.ts[0], xv.ts[0])
        if k == "any":
            return self.truthy(self.opaque("contains", [cont, x]))
        raise Unsupported("'in' on %r" % (cont.ty,))

    # -- subscripts ------------------------------------------------------------
    def ev_Subscript(self, e, st, exc):
        out = []
        if isinstance(e.slice, ast.Slice):
            if e.slice.step is not None:
                raise Unsupported("slice step")
            parts = [e.value] + [p for p in (e.slice.lower, e.slice.upper) if p is not None]
            for s, vs in self.ev_seq(parts, st, exc):
                base = vs[0]
                rest = vs[1:]
                lo = rest.pop(0) if e.slice.lower is not None else None
                hi = rest.pop(0) if e.slice.upper is not None else None
                out.append((s, self.slice_sv(base, lo, hi, s)))
            return out
        for s, (base, idx) in self.ev_seq([e.value, e.slice], st, exc):
            out.append((s, self.index_sv(base, idx, s, exc)))
        return out

    def slice_sv(self, base, lo, hi, st):
        k = base.ty.kind
        if k == "opt":
            base = self.coerce(base, base.ty.args[0], st)
            k = base.ty.kind
        if k == "any":
            return self.opaque("slice", [base] + [x for x in (lo, hi) if x is not None])
        if k not in ("str", "tstr", "list"):
            raise Unsupported("slice of %r" % (base.ty,))
        if k == "list" and base.ty.args[0].kind == "unknown":
            return base
        n = smt.Len(base.ts[0])
        lo_t = smt.Int(0) if lo is None or lo.ty.kind == "none" else self.clamp(self.coerce(lo, TINT, st).t, n, st)
        hi_t = n if hi is None or hi.ty.kind == "none" else self.clamp(self.coerce(hi, TINT, st).t, n, st)
        ln = smt.Sub(hi_t, lo_t)
        if k == "list":
            # seq.extract with negative length is empty in both solvers' semantics
            return SV(base.ty, [smt.Substr(c, lo_t, ln) for c in base.ts])
        return mk_str(smt.Substr(base.ts[0], lo_t, ln))

    def index_sv(self, base, idx, st, exc):
        k = base.ty.kind
        if k == "opt":
            base = self.coerce(base, base.ty.args[0], st)
            k = base.ty.kind
        if k == "tuple":
            i = self.coerce(idx, TINT, st).t
            if not smt.is_const(i):
                raise Unsupported("symbolic tuple index")
            items = tuple_items(base)
            c = smt.const_val(i)
            if not -len(items) <= c < len(items):
                self.require_noexc(st, smt.FALSE, "IndexError", "tuple_index", exc)
                return items[0]
            return items[c]
        if k in ("str", "tstr", "list"):
            if k == "list" and base.ty.args[0].kind == "unknown":
                self.require_noexc(st, smt.FALSE, "IndexError", "index_empty", exc)
                return self.opaque("index_empty")
            i = self.coerce(idx, TINT, st).t
            n = smt.Len(base.ts[0])
            if smt.is_const(i) and smt.const_val(i) >= 0:
                safe = smt.Lt(i, n)
                pos = i
            elif smt.is_const(i):
                safe = smt.Ge(smt.Add(n, i), smt.Int(0))
                pos = smt.Add(n, i)
            elif self.spec_mode:
                # contract clauses index with non-negative positions only (DESIGN 3.3)
                safe, pos = smt.TRUE, i
            elif self.entails(st, smt.Ge(i, smt.Int(0))):
                safe, pos = smt.Lt(i, n), i
            else:
                safe = smt.And(smt.Le(smt.Sub(smt.Int(0), n), i), smt.Lt(i, n))
                pos = smt.Ite(smt.Lt(i, smt.Int(0)), smt.Add(n, i), i)
            self.require_noexc(st, safe, "IndexError", "index", exc)
            if k == "list":
                return SV(base.ty.args[0], [smt.At(c, pos) for c in base.ts])
            return mk_str(smt.At(base.ts[0], pos))
        if k == "dict":
            if base.ty.args[0].kind == "unknown":
                self.require_noexc(st, smt.FALSE, "KeyError", "key_empty", exc)
                return self.opaque("index_emptydict")
            kv = self.coerce(idx, base.ty.args[0], st)
            self.require_noexc(st, smt.Select(base.ts[0], kv.ts[0]), "KeyError", "key", exc)
            return SV(base.ty.args[1], [smt.Select(a, kv.ts[0]) for a in base.ts[1:]])
        if k == "any":
            return self.opaque("index", [base, idx])
        raise Unsupported("index of %r" % (base.ty,))

    def ev_Lambda(self, e, st, exc):
        return [(st, SV(Ty("func"), [], py=("lambda", e, dict(st.env))))]

    def ev_GeneratorExp(self, e, st, exc):
        raise Unsupported("generator expression outside all()/any()")

    def ev_ListComp(self, e, st, exc):
        if len(e.generators) == 1 and not e.generators[0].ifs and isinstance(e.generators[0].target, ast.Name) \
                and isinstance(e.elt, ast.Call) and isinstance(e.elt.func, ast.Name) and e.elt.func.id == "str" and len(e.elt.args) == 1 \
                and isinstance(e.elt.args[0], ast.Name) and e.elt.args[0].id == e.generators[0].target.id and "str" not in st.env:
            out = []
            for s, xs in self.ev(e.generators[0].iter, st, exc):
                if xs.ty.kind != "list" or xs.ty.args[0].kind == "unknown" or len(xs.ts) != 1:
                    raise Unsupported("[str(x) for x in <%r>]" % (xs.ty,))
                out.append((s, self.seq_texts(xs, s)))
            return out
        if self.spec_mode:
            raise Unsupported("list comprehension in spec")
        r = self.listcomp_of_contract_call(e, st, exc)
        if r is not None:
            return r
        self.note("list comprehension abstracted at L%d" % self.relline)
        return [(st, self.opaque("listcomp_L%d" % self.relline))]

    def listcomp_of_contract_call(self, e, st, exc):
        """[f(g(x)) for x in xs] where f has a contract (calls directive) returning an object and the argument
        expression is pure: the result is a fresh list L with len(L) == len(xs) and, for every position k, f's
        postcondition for the arguments at k with result L[k]; f's frame is havocked once, each declared exception of
        f is a possible outcome; when f promises a new object (clause text 'not was_allocated(result)') the results
        are pairwise distinct (the k-th call starts after the j-th has returned its object)."""
        if len(e.generators) != 1:
            return None
        gen = e.generators[0]
        if gen.ifs or gen.is_async or not isinstance(gen.target, ast.Name) or not isinstance(e.elt, ast.Call) or e.elt.keywords:
            return None
        directive = self.contract.calls.get(ast.unparse(e.elt.func))
        if directive not in C.CONTRACTS:
            return None
        con = C.CONTRACTS[directive]
        rty = parse_type(con.returns) if con.returns else TNONE
        if rty.kind != "ref":
            return None
        out = []
        for s, xs in self.ev(gen.iter, st, exc):
            if xs.ty.kind != "list" or xs.ty.args[0].kind == "unknown":
                return None
            n = smt.Len(xs.ts[0])
            L = self.ctx.fresh("lc_L%d" % self.relline, smt.seq(INT))
            s.assume(smt.Eq(smt.Len(L), n))
            self.qcount += 1
            kn = "k!lc%d" % self.qcount
            kq = T(kn, INT)
            # arguments at position kq, evaluated purely
            inner = s.copy()
            inner.env = dict(s.env)
            inner.env[gen.target.id] = SV(xs.ty.args[0], [smt.At(c, kq) for c in xs.ts])
            mark = len(inner.pc)
            self.spec_mode += 1
            try:
                args = [self.ev1(a, inner) for a in e.elt.args]
            finally:
                self.spec_mode -= 1
            pos = list(args)
            if isinstance(e.elt.func, ast.Name) and list(con.types)[:1] == ["cls"]:
                pos = [s.env[e.elt.func.id] if e.elt.func.id in s.env else self.cls_sv(e.elt.func.id)] + pos
            penv = self.bind_params(con, pos, {}, inner)
            old = s.copy()
            old.env = dict(penv)
            old.env.update(self.ghost_env(s))
            if con.requires:
                raise Unsupported("list comprehension over a callee with preconditions")
            # exceptional outcomes (any iteration may raise)
            for ename, posts in con.raises.items():
                bad = s.copy()
                self.havoc_modifies(con, bad, penv)
                base_name, excluded = ename.split("!")[0], ename.split("!")[1:]
                if base_name in ("*", "BaseException", "Exception") or base_name not in self.bases:
                    ex = self.exc_symbolic(bad, "Exception", "callee")
                    for x in excluded:
                        if x in self.bases:
                            bad.assume(smt.Not(self.issub_term(ex.cls_term, x)))
                else:
                    ex = Exc(ename)
                if not bad.infeasible():
                    exc.append(Outcome("raise", bad, ex))
            s.calls += 1
            self.havoc_modifies(con, s, penv)
            res = SV(rty, [smt.At(L, kq)])
            # library-model facts produced while evaluating the arguments mention constants that would have to depend on
            # the position: they are dropped (the library functions stay uninterpreted inside the quantified statement)
            facts = [smt.Gt(smt.At(L, kq), smt.Int(0))]
            new_objects = False
            for name, expr in con.ensures.items():
                if name in con.not_assumed:
                    continue
                if "was_allocated(result)" in expr.replace(" ", "").replace("notwas", "not was") or "not was_allocated(result)" in expr:
                    new_objects = True
                facts.append(self.clause_term(expr, penv, s, old=old, result=res))
            if new_objects:
                # pairwise distinct results: stated through a numbering function private to this comprehension
                # (ord(L[k]) == k for all k  <=>  L is injective), which keeps the hypothesis single-variable
                ordf = self.ctx.fresh("lc_ord", INT).s
                self.ctx.fun(ordf + "_f", [INT], INT)
                facts.append(smt.Eq(smt.app(ordf + "_f", INT, smt.At(L, kq)), kq))
                for other in s.allocated:
                    facts.append(smt.Not(smt.Eq(smt.At(L, kq), other)))
            body = smt.Implies(smt.And(smt.Le(smt.Int(0), kq), smt.Lt(kq, n)), smt.And(*facts))
            q = smt.Forall([(kn, INT)], body)
            self.ctx.qreg[q.s] = (kn, body.s, INT)
            s.assume(q)
            self.note("list comprehension at L%d modelled through the contract of %s" % (self.relline, con.id))
            out.append((s, SV(ListT(Ref()), [L])))
        return out

    def ev_Starred(self, e, st, exc):
        raise Unsupported("starred expression")


def _transparent(e):
    if isinstance(e, (ast.BoolOp, ast.IfExp)):
        return True
    if isinstance(e, ast.UnaryOp) and isinstance(e.op, ast.Not):
        return True
    if isinstance(e, ast.Call) and isinstance(e.func, ast.Name) and e.func.id in ("implies", "all", "any", "dict_subset", "old_objects_keep"):
        return True
    if isinstance(e, ast.Call) and isinstance(e.func, ast.Name) and C.SPECS.get(e.func.id, {}).get("macro"):
        return True
    return False


STR_TAGS_ALL = ("String", "ParenString")
BUILTIN_NAMES = ("len", "min", "max", "int", "str", "isinstance", "hasattr", "getattr", "range", "enumerate",
                 "reversed", "tuple", "list", "iter", "next", "repr", "all", "any", "issubclass", "callable",
                 "type", "super", "object", "map", "bool", "print", "deque", "set", "dict", "sorted", "zip", "id", "hash")
from . import contracts as C  # noqa: E402
