"""Locate functions of the real source tree by dotted path.

`fparser.common.splitline:splitquote`, `fparser.two.utils:BlockBase.match`.
The source root is $VERIF_REPO/src (default /repo/src).  Nothing is copied:
the AST handed to the symbolic executor is parsed from the file as it is now.
"""
import ast
import hashlib
import os

_CACHE = {}


def repo_root():
    return os.environ.get("VERIF_REPO", "/repo")


def module_path(mod):
    base = os.path.join(repo_root(), "src", *mod.split("."))
    if os.path.isdir(base):
        return os.path.join(base, "__init__.py")
    return base + ".py"


def module_ast(mod):
    path = module_path(mod)
    key = (path, os.path.getmtime(path))
    if key not in _CACHE:
        with open(path, encoding="utf-8") as f:
            src = f.read()
        _CACHE[key] = (ast.parse(src, filename=path), src)
    return _CACHE[key][0]


def module_source(mod):
    module_ast(mod)
    path = module_path(mod)
    return _CACHE[(path, os.path.getmtime(path))][1]


class Found:
    def __init__(self, mod, qual, node, cls_node, tree):
        self.mod = mod
        self.qual = qual
        self.node = node
        self.cls_node = cls_node
        self.tree = tree

    @property
    def path(self):
        return module_path(self.mod)


def find(fid):
    fid = fid.split("@")[0]          # contract variants share the function
    mod, qual = fid.split(":")
    tree = module_ast(mod)
    parts = qual.split(".")
    body = tree.body
    cls_node = None
    node = None
    for i, p in enumerate(parts):
        node = None
        for n in body:
            if isinstance(n, (ast.FunctionDef, ast.ClassDef)) and n.name == p:
                node = n
        if node is None:
            raise KeyError("%s: %r not found in %s" % (fid, p, module_path(mod)))
        if isinstance(node, ast.ClassDef):
            cls_node = node
        body = node.body
    if not isinstance(node, ast.FunctionDef):
        raise KeyError("%s is not a function" % fid)
    return Found(mod, qual, node, cls_node if len(parts) > 1 else None, tree)


class _Strip(ast.NodeTransformer):
    """what extraction drops: docstrings and annotations (comments are not in the AST)"""

    def visit_FunctionDef(self, node):
        self.generic_visit(node)
        node.returns = None
        for a in node.args.args + node.args.kwonlyargs + node.args.posonlyargs:
            a.annotation = None
        if node.body and isinstance(node.body[0], ast.Expr) and isinstance(getattr(node.body[0], "value", None), ast.Constant) and isinstance(node.body[0].value.value, str):
            node.body = node.body[1:] or [ast.Pass()]
        return node

    def visit_AnnAssign(self, node):
        self.generic_visit(node)
        if node.value is None:
            return ast.Pass()
        return ast.Assign(targets=[node.target], value=node.value, lineno=node.lineno)


def normalised_hash(fnode):
    import copy
    n = _Strip().visit(copy.deepcopy(fnode))
    return hashlib.sha256(ast.dump(n, annotate_fields=True, include_attributes=False).encode()).hexdigest()[:16]


def module_constants(tree):
    """module-level NAME = <constant> bindings (strings, ints, bools, None, tuples/lists of them)"""
    out = {}
    for n in tree.body:
        if isinstance(n, ast.Assign) and len(n.targets) == 1 and isinstance(n.targets[0], ast.Name):
            try:
                out[n.targets[0].id] = ast.literal_eval(n.value)
            except Exception:
                pass
    return out


def module_classes(tree):
    return {n.name: n for n in tree.body if isinstance(n, ast.ClassDef)}


def module_functions(tree):
    return {n.name: n for n in tree.body if isinstance(n, ast.FunctionDef)}
