"""Locate functions of the real source tree by dotted path.

`fparser.common.splitline:splitquote`, `fparser.two.utils:BlockBase.match`.
The source root is $VERIF_REPO/src (default /repo/src).  Nothing is copied:
the AST handed to the symbolic executor is parsed from the file as it is now.
"""
import ast
import hashlib
import os

_CACHE = {}


def repo_root():
    return os.environ.get("VERIF_REPO", "/repo")


def module_path(mod):
    base = os.path.join(repo_root(), "src", *mod.split("."))
    if os.path.isdir(base):
        return os.path.join(base, "__init__.py")
    return base + ".py"


def module_ast(mod):
    path = module_path(mod)
    key = (path, os.path.getmtime(path))
    if key not in _CACHE:
        with open(path, encoding="utf-8") as f:
            src = f.read()
        _CACHE[key] = (ast.parse(src, filename=path), src)
    return _CACHE[key][0]


def module_source(mod):
    module_ast(mod)
    path = module_path(mod)
    return _CACHE[(path, os.path.getmtime(path))][1]


class Found:
    def __init__(self, mod, qual, node, cls_node, tree):
        self.mod = mod
        self.qual = qual
        self.node = node
        self.cls_node = cls_node
        self.tree = tree

    @property
    def path(self):
        return module_path(self.mod)


def find(fid):
    fid = fid.split("@")[0]          # contract variants share the function
    mod, qual = fid.split(":")
    tree = module_ast(mod)
    parts = qual.split(".")
    body = tree.body
    cls_node = None
    node = None
    for i, p in enumerate(parts):
        node = None
        for n in body:
            if isinstance(n, (ast.FunctionDef, ast.ClassDef)) and n.name == p:
                node = n
        if node is None:
            raise KeyError("%s: %r not found in %s" % (fid, p, module_path(mod)))
        if isinstance(node, ast.ClassDef):
            cls_node = node
        body = node.body
    if not isinstance(node, ast.FunctionDef):
        raise KeyError("%s is not a function" % fid)
    return Found(mod, qual, node, cls_node if len(parts) > 1 else None, tree)


class _Strip(ast.NodeTransformer):
    """what extraction drops: docstrings and annotations (comments are not in the AST)"""

    def visit_FunctionDef(self, node):
        self.generic_visit(node)
        node.returns = None
        for a in node.args.args + node.args.kwonlyargs + node.args.posonlyargs:
            a.annotation = None
        if node.body and isinstance(node.body[0], ast.Expr) and isinstance(getattr(node.body[0], "value", None), ast.Constant) and isinstance(node.body[0].value.value, str):
            node.body = node.body[1:] or [ast.Pass()]
        return node

    def visit_AnnAssign(self, node):
        self.generic_visit(node)
        if node.value is None:
            return ast.Pass()
        return ast.Assign(targets=[node.target], value=node.value, lineno=node.lineno)


def normalised_hash(fnode):
    import copy
    n = _Strip().visit(copy.deepcopy(fnode))
    return hashlib.sha256(ast.dump(n, annotate_fields=True, include_attributes=False).encode()).hexdigest()[:16]


def module_constants(tree):
    """module-level NAME = <constant> bindings (strings, ints, bools, None, tuples/lists of them)"""
    out = {}
    for n in tree.body:
        if isinstance(n, ast.Assign) and len(n.targets) == 1 and isinstance(n.targets[0], ast.Name):
            try:
                out[n.targets[0].id] = ast.literal_eval(n.value)
            except Exception:
                pass
    return out


def module_classes(tree):
    return {n.name: n for n in tree.body if isinstance(n, ast.ClassDef)}


def module_functions(tree):
    return {n.name: n for n in tree.body if isinstance(n, ast.FunctionDef)}


# ---------------------------------------------------------------- rename recovery
def normalised_source(fnode):
    import copy
    return ast.unparse(_Strip().visit(copy.deepcopy(fnode)))


def local_names(fnode):
    """names bound inside the function: parameters, assignment / loop / with / except / comprehension targets"""
    out = set()
    a = fnode.args
    for x in a.args + a.kwonlyargs + a.posonlyargs + ([a.vararg] if a.vararg else []) + ([a.kwarg] if a.kwarg else []):
        out.add(x.arg)
    for n in ast.walk(fnode):
        if isinstance(n, ast.Name) and isinstance(n.ctx, (ast.Store, ast.Del)):
            out.add(n.id)
        elif isinstance(n, ast.ExceptHandler) and n.name:
            out.add(n.name)
    for n in ast.walk(fnode):
        if isinstance(n, (ast.Global, ast.Nonlocal)):
            out -= set(n.names)
    return out


def alpha_renaming(new, old):
    """{new local name: old local name} when `new` is `old` up to a consistent, injective renaming of local names
    (parameters included), else None.  Everything else - structure, attribute names, constants, global and builtin
    names, keyword names at call sites - has to be identical."""
    import copy
    new = _Strip().visit(copy.deepcopy(new))
    old = _Strip().visit(copy.deepcopy(old))
    ln, lo = local_names(new), local_names(old)
    fwd, bwd = {}, {}

    def bind(a, b):
        if (a in ln) != (b in lo):
            return False
        if a not in ln:
            return a == b
        if fwd.setdefault(a, b) != b or bwd.setdefault(b, a) != a:
            return False
        return True

    def same(x, y):
        if type(x) is not type(y):
            return False
        if isinstance(x, ast.Name):
            return bind(x.id, y.id)
        if isinstance(x, ast.arg):
            return bind(x.arg, y.arg)
        if isinstance(x, ast.ExceptHandler):
            if (x.name is None) != (y.name is None) or (x.name is not None and not bind(x.name, y.name)):
                return False
            return same(x.type, y.type) if x.type is not None or y.type is not None else True and same_list(x.body, y.body)
        if isinstance(x, ast.AST):
            for f in x._fields:
                if f in ("ctx", "type_comment"):
                    continue
                if isinstance(x, ast.FunctionDef) and f == "name" and x is new:
                    continue
                if not same(getattr(x, f, None), getattr(y, f, None)):
                    return False
            return True
        if isinstance(x, list):
            return same_list(x, y)
        return x == y

    def same_list(xs, ys):
        return len(xs) == len(ys) and all(same(a, b) for a, b in zip(xs, ys))

    # keyword arguments at call sites inside the function that name a renamed parameter of *this* function do not exist
    # (a function does not call itself by keyword here); keyword names are compared literally by same()
    if not same(new, old):
        return None
    if isinstance(new, ast.FunctionDef) and new.name != old.name:
        return None
    return {a: b for a, b in fwd.items() if a != b}


class _Rename(ast.NodeTransformer):
    def __init__(self, mapping):
        self.m = mapping

    def visit_Name(self, node):
        node.id = self.m.get(node.id, node.id)
        return node

    def visit_arg(self, node):
        node.arg = self.m.get(node.arg, node.arg)
        return node

    def visit_ExceptHandler(self, node):
        self.generic_visit(node)
        if node.name:
            node.name = self.m.get(node.name, node.name)
        return node


def rename_locals(fnode, mapping):
    import copy
    return ast.fix_missing_locations(_Rename(mapping).visit(copy.deepcopy(fnode)))
