"""Sidecar contract registry.  Contract files under /verif/contracts call
contract(), spec(), klass(), ghost() at import time."""
import importlib
import os
import pkgutil

CONTRACTS = {}
SPECS = {}
CLASSES = {}
GHOSTS = {}
AXIOM_NOTES = []      # textual list of assumed facts, goes to evidence


class Contract:
    def __init__(self, fid, **kw):
        self.id = fid
        self.types = kw.pop("types", {})
        self.returns = kw.pop("returns", None)
        self.requires = _named(kw.pop("requires", {}), "pre")
        self.ensures = _named(kw.pop("ensures", {}), "post")
        raises = kw.pop("raises", {})
        if isinstance(raises, (list, tuple)):
            raises = {r: {} for r in raises}
        self.raises = {k: _named(v, "exc") for k, v in raises.items()}
        self.modifies = list(kw.pop("modifies", []))
        self.loops = kw.pop("loops", {})
        self.locals = kw.pop("locals", {})
        self.calls = kw.pop("calls", {})
        self.inline = kw.pop("inline", False)
        self.merge = kw.pop("merge", False)
        self.pure = kw.pop("pure", False)
        self.trusted = kw.pop("trusted", False)     # contract assumed, body not verified
        self.note = kw.pop("note", "")
        self.domain = kw.pop("domain", None)
        self.assume = _named(kw.pop("assume", {}), "assume")   # extra assumptions (listed in evidence)
        self.defaults = kw.pop("defaults", {})
        self.serves = kw.pop("serves", [])
        self.unroll = kw.pop("unroll", {})
        self.opaque_raise = kw.pop("opaque_raise", False)
        self.bind = kw.pop("bind", {})
        self.prop = kw.pop("prop", False)
        self.bounded_only = kw.pop("bounded_only", False)   # executable contract checked on a bounded domain only (never counted as proved)
        self.receiver = kw.pop("receiver", None)    # python expression building `self` for the bounded runner / replay
        self.hints = kw.pop("hints", {})     # clause name -> invariant names its proof needs (others are dropped in the focused stage)
        self.clause_props = kw.pop("clause_props", {})   # clause-name prefix -> properties it belongs to (default: all of serves)
        self.ensures_local = _named(kw.pop("ensures_local", {}), "local")   # postconditions that may mention locals
        self.snapshots = dict(kw.pop("snapshots", {}))     # label -> "<target> = <callee>": state recorded right after that assignment, read with at("label", expr)
        self.not_assumed = kw.pop("not_assumed", [])   # clauses with an open finding: checked here, never assumed by callers
        self.bounded_clauses = kw.pop("bounded_clauses", [])   # ensures clauses left to the bounded stand-in (no solver attempt)
        self.alloc_facts = kw.pop("alloc_facts", False)   # assume entry-state references denote objects allocated at entry
        self.mutates = kw.pop("mutates", [])      # list-valued parameters the callee changes in place
        self.str_axioms = kw.pop("str_axioms", ())    # opt-in library facts about str.lower/upper
        self.ghost_update = kw.pop("ghost_update", {})       # ghost assignments executed at every normal return
        self.ghost_update_exc = kw.pop("ghost_update_exc", {})  # ... at every exceptional exit
        if kw:
            raise TypeError("unknown contract keys %s for %s" % (sorted(kw), fid))


def _named(x, prefix):
    if isinstance(x, dict):
        return dict(x)
    return {"%s%d" % (prefix, i): e for i, e in enumerate(x)}


def contract(fid, **kw):
    if fid in CONTRACTS:
        raise ValueError("duplicate contract " + fid)
    c = Contract(fid, **kw)
    CONTRACTS[fid] = c
    return c


def spec(name, params, ret, body, rec=False, note="", macro=False, heap=()):
    """params: 'a:int, s:str'; body: python expression (may call itself when rec)"""
    ps = []
    for p in params.split(","):
        n, t = p.split(":")
        ps.append((n.strip(), t.strip()))
    SPECS[name] = dict(name=name, params=ps, ret=ret, body=body, rec=rec, note=note, macro=macro, heap=tuple(heap))


PYSPECS = {}


def pyspec(name, source):
    """helper written in plain Python for executable (bounded-only) contracts; `source` defines function `name`"""
    PYSPECS[name] = source


def klass(name, bases=(), fields=None, exception=False, module=None):
    CLASSES[name] = dict(name=name, bases=tuple(bases), fields=dict(fields or {}), exception=exception, module=module)


def ghost(name, ty):
    GHOSTS[name] = ty


def assumed(text):
    AXIOM_NOTES.append(text)


def load_all(path=None):
    """import every module of the contracts package (idempotent)"""
    import contracts as pkg  # /verif on sys.path
    for m in pkgutil.iter_modules(pkg.__path__):
        importlib.import_module("contracts." + m.name)
    return CONTRACTS
