"""pyvc - a small contract-based deductive verifier for a subset of Python.

Verification conditions are generated from the AST of the *real* functions
under /repo (read on every run) and discharged by the installed SMT solvers.
See /verif/DESIGN.md section 3.
"""
