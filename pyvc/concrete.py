"""Executable contracts on the real code (runs under /venv/bin/python).

Used for: the bounded stand-in (enumerate a contract's domain on the real
function), the contract cross-check (a proved clause must hold on small
inputs), and replay of counterexamples.

  concrete.py --contract ID --tier quick --seed S --shard k/n   -> JSON on stdout
  concrete.py --replay FILE                                    -> exit 1 if the clause fails
"""
import ast
import copy
import importlib
import itertools
import json
import os
import sys
import time

HERE = os.path.dirname(os.path.dirname(os.path.abspath(__file__)))
sys.path.insert(0, HERE)
REPO = os.environ.get("VERIF_REPO", "/repo")
if REPO != "/repo":
    sys.path.insert(0, os.path.join(REPO, "src"))
os.environ.setdefault("PYTHONDONTWRITEBYTECODE", "1")
sys.dont_write_bytecode = True

from pyvc import contracts as C  # noqa: E402


# ------------------------------------------------------------------ domains
def strings(alphabet, maxlen, minlen=0):
    for n in range(minlen, maxlen + 1):
        for tup in itertools.product(alphabet, repeat=n):
            yield "".join(tup)


def ints(lo, hi):
    return range(lo, hi + 1)


def lists_of(items, maxlen):
    items = list(items)
    for n in range(0, maxlen + 1):
        for tup in itertools.product(items, repeat=n):
            yield list(tup)


DOMAIN_ENV = dict(strings=strings, ints=ints, lists_of=lists_of, product=itertools.product)


def domain_iter(con, tier):
    dom = con.domain
    if dom is None:
        return None
    size = dom.get("_size", {}).get(tier, dom.get("_size", {}).get("quick", 4))
    env = dict(DOMAIN_ENV, N=size)
    for name, src in C.PYSPECS.items():
        exec(src, env)
    names = [k for k in dom if not k.startswith("_")]
    axes = [list(eval(dom[k], env)) for k in names]
    return names, axes


# ------------------------------------------------------- executable clauses
class _Rewrite(ast.NodeTransformer):
    def __init__(self):
        self.olds = []

    def visit_Call(self, node):
        self.generic_visit(node)
        if isinstance(node.func, ast.Name) and node.func.id == "implies" and len(node.args) == 2:
            return ast.BoolOp(op=ast.Or(), values=[ast.UnaryOp(op=ast.Not(), operand=node.args[0]), node.args[1]])
        if isinstance(node.func, ast.Name) and node.func.id == "old":
            self.olds.append(node.args[0])
            return ast.Subscript(value=ast.Name(id="__old__", ctx=ast.Load()),
                                 slice=ast.Constant(value=len(self.olds) - 1), ctx=ast.Load())
        return node


def compile_clause(expr):
    tree = ast.parse(expr, mode="eval")
    rw = _Rewrite()
    tree = ast.fix_missing_locations(rw.visit(tree))
    code = compile(tree, "<clause>", "eval")
    olds = [compile(ast.fix_missing_locations(ast.Expression(body=o)), "<old>", "eval") for o in rw.olds]
    return code, olds


def spec_env(module=None):
    import re as _re
    from fparser.common.splitline import String, ParenString
    env = {"is_String": lambda x: isinstance(x, String), "is_ParenString": lambda x: isinstance(x, ParenString)}

    def _pat(p):
        if isinstance(p, str):
            p = getattr(module, p)
        return p if hasattr(p, "pattern") else p.__self__      # bound .match / .search of a compiled pattern

    def _m(p, s, kind="match"):
        return getattr(_pat(p), kind)(s)

    env["re_matched"] = lambda p, s, kind="match": _m(p, s, kind) is not None
    env["re_start"] = lambda p, s, g, kind="match": _m(p, s, kind).start(g)
    env["re_end"] = lambda p, s, g, kind="match": _m(p, s, kind).end(g)
    env["re_group"] = lambda p, s, g, kind="match": _m(p, s, kind).group(g)
    env["is_digits"] = lambda s: _re.fullmatch(r"[0-9]+", s) is not None
    env["nonnull"] = lambda x: x
    env["squeeze"] = lambda x: str(x).replace(" ", "")
    for name, src in C.PYSPECS.items():
        exec(src, env)
    for name, sp in C.SPECS.items():
        if sp["body"] is None:
            continue
        params = ", ".join(p for p, _ in sp["params"])
        tree = ast.parse("lambda %s: %s" % (params, sp["body"]), mode="eval")
        tree = ast.fix_missing_locations(_Rewrite().visit(tree))
        env[name] = eval(compile(tree, "<spec %s>" % name, "eval"), env)
    return env


def resolve(fid):
    mod, qual = fid.split(":")
    obj = importlib.import_module(mod)
    for part in qual.split("."):
        obj = getattr(obj, part)
    return obj


class Runner:
    def __init__(self, fid):
        C.load_all()
        self.con = C.CONTRACTS[fid]
        self.fn = resolve(fid)
        self.env = spec_env(importlib.import_module(fid.split(":")[0]))
        self.assume = {k: compile_clause(v) for k, v in self.con.assume.items()}
        self.req = {k: compile_clause(v) for k, v in self.con.requires.items()}
        self.ens = {k: compile_clause(v) for k, v in self.con.ensures.items()}
        self.exc = {e: {k: compile_clause(v) for k, v in d.items()} for e, d in self.con.raises.items()}

    def check(self, kwargs):
        """-> (status, failures) status in pre-false / ok / fail"""
        env = dict(self.env)
        env.update(kwargs)
        recv = None
        if self.con.receiver:
            import fparser.common.readfortran as _rf
            import fparser.common.sourceinfo as _si
            recv = eval(self.con.receiver, dict(vars(_rf), FortranFormat=_si.FortranFormat))
            env["self"] = recv
        try:
            for k, (code, olds) in self.req.items():
                if not eval(code, env):
                    return "pre-false", []
        except Exception:
            return "pre-false", []
        pre = copy.deepcopy(kwargs)
        if recv is not None:
            try:
                pre["self"] = copy.deepcopy(recv)
            except Exception:
                pre["self"] = recv
        failures = []
        observed = {}
        # model conformance: every assumed axiom of the contract must hold on the real library
        for k, (code, olds) in self.assume.items():
            try:
                ok = bool(eval(code, env))
            except Exception as ex:
                ok = False
            if not ok:
                failures.append(("assume." + k, "assumed axiom is false on CPython"))
        try:
            result = self.fn(recv, **copy.deepcopy(kwargs)) if recv is not None else self.fn(**copy.deepcopy(kwargs))
            raised = None
        except BaseException as e:  # noqa
            result, raised = None, e
        if raised is not None:
            observed["raised"] = "%s: %s" % (type(raised).__name__, raised)
            names = [n for n in self.exc if n == "*" or any(b.__name__ == n for b in type(raised).__mro__)]
            if not names:
                failures.append(("raises.only_declared", "exception %s escapes" % observed["raised"]))
            for n in names:
                for k, (code, olds) in self.exc[n].items():
                    e2 = dict(env)
                    e2["__old__"] = [eval(o, dict(self.env, **pre)) for o in olds]
                    try:
                        ok = bool(eval(code, e2))
                    except Exception as ex:
                        ok = False
                    if not ok:
                        failures.append(("raises.%s.%s" % (n, k), ""))
        else:
            if self.con.returns == "bool" and not isinstance(result, bool):
                result = bool(result)       # the contract speaks about truthiness only
            observed["result"] = repr(result)
            for k, (code, olds) in self.ens.items():
                e2 = dict(env)
                e2["result"] = result
                e2["__old__"] = [eval(o, dict(self.env, **pre)) for o in olds]
                try:
                    ok = bool(eval(code, e2))
                    why = ""
                except Exception as ex:
                    ok, why = False, "clause raised %s: %s" % (type(ex).__name__, ex)
                if not ok:
                    failures.append(("post." + k, why))
        return ("fail" if failures else "ok"), [dict(clause=c, why=w, observed=observed) for c, w in failures]


def run_domain(fid, tier, seed, shard):
    r = Runner(fid)
    d = domain_iter(r.con, tier)
    if d is None:
        return dict(contract=fid, error="no domain")
    names, axes = d
    k, n = shard
    total = 1
    for a in axes:
        total *= len(a)
    evaluations = nontrivial = 0
    failures = []
    samples = []
    t0 = time.time()
    for idx, tup in enumerate(itertools.product(*axes)):
        if idx % n != k:
            continue
        kwargs = dict(zip(names, tup))
        status, fails = r.check(kwargs)
        if status == "pre-false":
            continue
        evaluations += 1
        nontrivial += 1
        if len(samples) < 3 and (idx // n) % 97 == seed % 97:
            samples.append(kwargs)
        if fails and len(failures) < 5:
            failures.append(dict(input=kwargs, failures=fails))
    return dict(contract=fid, tier=tier, domain_size=total, shard=[k, n], evaluations=evaluations,
                nontrivial=nontrivial, failures=failures, samples=samples, seconds=round(time.time() - t0, 2),
                domain={kk: vv for kk, vv in r.con.domain.items()})


def replay(path):
    data = json.load(open(path))
    fid = data["contract"]
    print("replay %s" % fid)
    print("obligation: %s" % data.get("obligation"))
    if data.get("input") is None:
        print("no concrete input recorded (no-failing-input-found); solver output follows")
        print(data.get("solver_output", "")[:2000])
        return 0
    r = Runner(fid)
    status, fails = r.check(data["input"])
    print("input: %r" % (data["input"],))
    print("status: %s" % status)
    for f in fails:
        print("  violated %s %s observed=%s" % (f["clause"], f["why"], f["observed"]))
    return 1 if fails else 0


def main(argv):
    if "--replay" in argv:
        return replay(argv[argv.index("--replay") + 1])
    fid = argv[argv.index("--contract") + 1]
    tier = argv[argv.index("--tier") + 1] if "--tier" in argv else "quick"
    seed = int(argv[argv.index("--seed") + 1]) if "--seed" in argv else 0
    shard = (0, 1)
    if "--shard" in argv:
        a, b = argv[argv.index("--shard") + 1].split("/")
        shard = (int(a), int(b))
    if "--input" in argv:
        r = Runner(fid)
        kwargs = json.loads(argv[argv.index("--input") + 1])
        status, fails = r.check(kwargs)
        print(json.dumps(dict(status=status, failures=fails)))
        return 0
    print(json.dumps(run_domain(fid, tier, seed, shard)))
    return 0


if __name__ == "__main__":
    sys.exit(main(sys.argv[1:]))
