"""Models of builtins and of str / list / dict methods (DESIGN 3.2)."""
import ast
import re
from . import smt
from .smt import T, INT, BOOL, STR, U
from .values import *  # noqa
from .values import SV, Ty, Unsupported
from .state import State, Exc, Outcome
from .engine_call import WS_RE
from . import contracts as C


class LibMixin:
    # ---------------------------------------------------------------- builtins
    def bi_len(self, pos, kw, st, exc, e):
        v = pos[0]
        if v.ty.kind == "opt":
            v = self.coerce(v, v.ty.args[0], st)
        k = v.ty.kind
        if k in ("str", "tstr"):
            return mk_int(smt.Len(v.ts[0]))
        if k == "list":
            if v.ty.args[0].kind == "unknown":
                return mk_int(0)
            return mk_int(smt.Len(v.ts[0]))
        if k == "tuple":
            return mk_int(len(v.ty.args))
        if k == "any":
            r = self.uf("len_any", [v.ts[0]], INT)
            st.assume(smt.Ge(r, smt.Int(0)))
            return mk_int(r)
        raise Unsupported("len of %r" % (v.ty,))

    def bi_min(self, pos, kw, st, exc, e):
        a, b = [self.coerce(p, TINT, st).t for p in pos]
        return mk_int(smt.Min(a, b))

    def bi_max(self, pos, kw, st, exc, e):
        a, b = [self.coerce(p, TINT, st).t for p in pos]
        return mk_int(smt.Max(a, b))

    def bi_bool(self, pos, kw, st, exc, e):
        return mk_bool(self.truthy(pos[0]))

    def bi_str(self, pos, kw, st, exc, e):
        return mk_str(self.to_text(pos[0], st, "s"))

    def bi_repr(self, pos, kw, st, exc, e):
        return mk_str(self.to_text(pos[0], st, "r"))

    def bi_print(self, pos, kw, st, exc, e):
        return NONE

    def bi_id(self, pos, kw, st, exc, e):
        return mk_int(self.uf("id", [self.to_u(pos[0])], INT))

    def bi_hash(self, pos, kw, st, exc, e):
        return mk_int(self.uf("hash", [self.to_u(pos[0])], INT))

    def bi_int(self, pos, kw, st, exc, e):
        v = pos[0]
        if v.ty.kind == "opt":
            self.require_noexc(st, smt.Not(v.ts[0]), "TypeError", "int_of_none", exc)
            v = opt_inner(v)
        if v.ty.kind in ("int", "bool"):
            return self.coerce(v, TINT, st)
        if v.ty.kind in ("str", "tstr"):
            s = v.ts[0]
            # int() of a non-empty ASCII digit string; anything else may raise ValueError
            digits = T('(str.in_re %s (re.+ (re.range "0" "9")))' % s.s, BOOL)
            self.require_noexc(st, digits, "ValueError", "int_of_str", exc)
            r = smt.app("str.to_int", INT, s)
            st.assume(smt.Ge(r, smt.Int(0)))   # value of a digit string is non-negative (library fact)
            return mk_int(r)
        raise Unsupported("int() of %r" % (v.ty,))

    def bi_tuple(self, pos, kw, st, exc, e):
        if not pos:
            return mk_tuple([])
        v = pos[0]
        if v.ty.kind == "tuple":
            return v
        if v.ty.kind == "list" and v.ty.args[0].kind != "unknown":
            self.note("tuple(list) modelled as the (immutable) sequence of the same elements")
            return v
        self.note("tuple(list) abstracted")
        return self.opaque("tuple", [v])

    def bi_list(self, pos, kw, st, exc, e):
        if not pos:
            return SV(TEMPTY, [])
        if pos[0].ty.kind == "list":
            return pos[0]
        return self.opaque("list", pos)

    bi_deque = bi_list

    def bi_set(self, pos, kw, st, exc, e):
        return self.opaque("set", pos)

    def bi_dict(self, pos, kw, st, exc, e):
        if not pos:
            return SV(Ty("dict", (Ty("unknown"), Ty("unknown"))), [])
        return self.opaque("dict", pos)

    def bi_isinstance(self, pos, kw, st, exc, e):
        v, c = pos
        # isinstance(x, (list, tuple)) and the like: builtin type names written out in the source
        a1 = e.args[1] if e is not None and len(getattr(e, "args", [])) == 2 else None
        if isinstance(a1, ast.Tuple) and a1.elts and all(isinstance(x, ast.Name) and x.id in ("str", "int", "list", "tuple", "bool") for x in a1.elts) \
                and not any(x.id in st.env for x in a1.elts):
            return mk_bool(smt.Or(*[self.isinst(v, x.id, st) for x in a1.elts]))
        names = [it.py for it in tuple_items(c)] if c.ty.kind == "tuple" else [c.py]
        if c.ty.kind == "func" and c.py in ("str", "int", "list", "tuple", "bool"):
            return mk_bool(self.isinst(v, c.py, st))
        if c.ty.kind not in ("cls", "tuple") or any(not isinstance(n, str) for n in names):
            if v.ty.kind == "ref" and c.ty.kind == "cls":
                return mk_bool(smt.app(self.ctx.fun("issub", [INT, INT], BOOL), BOOL, self.typeof(v.ts[0]), c.ts[0]))
            if v.ty.kind in ("ref", "any", "opt") and c.ty.kind in ("any", "tuple", "cls"):
                return mk_bool(self.truthy(self.opaque("isinstance", [v, c])))
            raise Unsupported("isinstance with non-class %r" % (c,))
        return mk_bool(smt.Or(*[self.isinst(v, n, st) for n in names]))

    def isinst(self, v, name, st):
        k = v.ty.kind
        if k == "opt":
            return smt.And(smt.Not(v.ts[0]), self.isinst(opt_inner(v), name, st))
        if k == "none":
            return smt.FALSE
        if k == "str":
            return smt.Bool(name in ("str", "object"))
        if k == "tstr":
            if name in ("str", "object"):
                return smt.TRUE
            if name in STR_TAGS:
                return smt.Eq(v.ts[1], smt.Int(STR_TAGS[name]))
            return smt.FALSE
        if k == "int":
            return smt.Bool(name in ("int", "object"))
        if k == "bool":
            return smt.Bool(name in ("bool", "int", "object"))
        if k == "list":
            return smt.Bool(name in ("list", "object"))
        if k == "tuple":
            return smt.Bool(name in ("tuple", "object"))
        if k == "ref":
            if v.ty.cls and self.is_subclass_name(v.ty.cls, name):
                return smt.TRUE
            if v.ty.cls and v.ty.cls in C.CLASSES and name in C.CLASSES and not self.is_subclass_name(name, v.ty.cls) \
                    and not name.endswith("Mixin") and not v.ty.cls.endswith("Mixin"):
                # declared classes form a single-inheritance tree (mixins aside): unrelated classes share no instance
                return smt.FALSE
            if name in ("str", "int", "list", "tuple", "bool"):
                return smt.FALSE
            return self.issub_term(self.typeof(v.ts[0]), name)
        if k == "any":
            return self.truthy(self.opaque("isinstance_" + name, [v]))
        if k in ("cls", "func"):
            return smt.FALSE
        if k in ("regex", "match", "optmatch") and name in ("str", "int", "list", "tuple", "bool"):
            return smt.FALSE
        raise Unsupported("isinstance of %r" % (v.ty,))

    def bi_issubclass(self, pos, kw, st, exc, e):
        a, b = pos
        if a.ty.kind == "cls" and b.ty.kind == "cls" and isinstance(b.py, str):
            if isinstance(a.py, str) and a.py in self.bases:
                return mk_bool(self.is_subclass_name(a.py, b.py))
            return mk_bool(self.issub_term(a.ts[0], b.py))
        return mk_bool(self.truthy(self.opaque("issubclass", [a, b])))

    def bi_hasattr(self, pos, kw, st, exc, e):
        v, name = pos
        if not smt.is_const(name.ts[0]):
            raise Unsupported("hasattr with symbolic name")
        attr = smt.const_val(name.ts[0])
        if v.ty.kind == "opt" and v.ty.args[0].kind == "ref":
            inner = opt_inner(v)
            t = self.typeof(inner.ts[0])
            return mk_bool(smt.And(smt.Not(v.ts[0]), smt.app(self.ctx.fun("cls_hasattr_" + attr, [INT], BOOL), BOOL, t)))
        if v.ty.kind == "ref" or v.ty.kind == "cls":
            t = v.ts[0] if v.ty.kind == "cls" else self.typeof(v.ts[0])
            return mk_bool(smt.app(self.ctx.fun("cls_hasattr_" + attr, [INT], BOOL), BOOL, t))
        return mk_bool(self.truthy(self.opaque("hasattr_" + attr, [v])))

    def bi_getattr(self, pos, kw, st, exc, e):
        v, name = pos[0], pos[1]
        attr = smt.const_val(name.ts[0])
        if v.ty.kind == "cls":
            return SV(TANY, [self.uf("clsattr_" + attr, [v.ts[0]], U)], py="clsattr:%s" % attr)
        if v.ty.kind == "ref" and self.field_type(attr) is not None and len(pos) == 3:
            self.note("getattr(obj, %r, default) read as declared field" % attr)
            return self.heap_read(st, v.ts[0], attr)
        return self.opaque("getattr_" + attr, pos)

    def bi_callable(self, pos, kw, st, exc, e):
        return mk_bool(self.truthy(self.opaque("callable", pos)))

    def bi_type(self, pos, kw, st, exc, e):
        v = pos[0]
        if v.ty.kind == "ref":
            return SV(TCLS, [self.typeof(v.ts[0])], py=None)
        return self.opaque("type", pos)

    def bi_iter(self, pos, kw, st, exc, e):
        # an iterator over a list, used linearly (one name, next() calls and at most one for loop): modelled as the
        # sequence of the elements still to come
        v = pos[0] if pos else None
        if v is not None and v.ty.kind == "list" and v.ty.args[0].kind != "unknown":
            return SV(v.ty, v.ts, py="iter")
        raise Unsupported("iter()")

    def bi_next(self, pos, kw, st, exc, e):
        d = self.contract.calls.get("next")
        if d is None and len(pos) == 1 and pos[0].py == "iter" and pos[0].ty.kind == "list" and isinstance(e.args[0], ast.Name):
            it = pos[0]
            self.require_noexc(st, smt.Gt(smt.Len(it.ts[0]), smt.Int(0)), "StopIteration", "next_of_exhausted_iterator", exc)
            head = SV(it.ty.args[0], [smt.At(c, smt.Int(0)) for c in it.ts])
            rest = SV(it.ty, [smt.Substr(c, smt.Int(1), smt.Sub(smt.Len(c), smt.Int(1))) for c in it.ts], py="iter")
            st.env[e.args[0].id] = rest
            return head
        if d is None:
            raise Unsupported("next() without a calls['next'] contract")
        from . import contracts as C
        return self.apply_contract(C.CONTRACTS[d], pos, kw, st, exc, site="next")

    def bi_map(self, pos, kw, st, exc, e):
        if len(pos) == 2 and pos[0].ty.kind == "func" and pos[0].py == "str" and pos[1].ty.kind == "list" \
                and pos[1].ty.args[0].kind != "unknown" and len(pos[1].ts) == 1:
            return self.seq_texts(pos[1], st)
        return self.opaque("map", pos)

    def seq_texts(self, xs, st):
        """map(str, xs) / [str(x) for x in xs]: the sequence T with len(T) == len(xs) and T[i] == str(xs[i])"""
        elty = xs.ty.args[0]
        r = self.uf("seqtext_" + elty.kind, [xs.ts[0]], smt.seq(STR))
        st.assume(smt.Eq(smt.Len(r), smt.Len(xs.ts[0])))
        self.qcount += 1
        kn = "k!st%d" % self.qcount
        kq = T(kn, INT)
        item = SV(elty, [smt.At(xs.ts[0], kq)])
        body = smt.Implies(smt.And(smt.Le(smt.Int(0), kq), smt.Lt(kq, smt.Len(xs.ts[0]))),
                           smt.Eq(smt.At(r, kq), self.to_text(item, st)))
        st.assume(smt.Forall([(kn, INT)], body))
        return SV(ListT(TSTR), [r])

    bi_sorted = bi_map
    bi_zip = bi_map

    def bi_reversed(self, pos, kw, st, exc, e):
        raise Unsupported("reversed() outside a for loop")

    bi_range = bi_reversed
    bi_enumerate = bi_reversed

    # ------------------------------------------------------------- str methods
    def ws_member(self, s_term):
        return T("(str.in_re %s (re.* %s))" % (s_term.s, WS_RE), BOOL)

    def ws_char(self, c_term):
        return T("(str.in_re %s %s)" % (c_term.s, WS_RE), BOOL)

    def strip_model(self, s, st, left, right, chars=None):
        """facts defining s.strip()/lstrip()/rstrip() (whitespace version)"""
        if smt.is_const(s):
            v = smt.const_val(s)
            return smt.Str(v.strip() if left and right else v.lstrip() if left else v.rstrip())
        name = "strip" if left and right else "lstrip" if left else "rstrip"
        key = (name, s.s)
        if key in self.strip_cache:
            r, facts = self.strip_cache[key]
            for f in facts:
                if f not in st.pc:
                    st.assume(f)
            return r
        mark = len(st.pc)
        r = self.uf("str_" + name, [s], STR)
        n = smt.Len(s)
        a = self.ctx.fresh("k_l", INT) if left else smt.Int(0)
        b = self.ctx.fresh("k_r", INT) if right else n
        st.assume(smt.And(smt.Le(smt.Int(0), a), smt.Le(a, b), smt.Le(b, n)))
        st.assume(smt.Eq(r, smt.Substr(s, a, smt.Sub(b, a))))
        if left:
            st.assume(self.ws_member(smt.Substr(s, smt.Int(0), a)))
            st.assume(smt.Or(smt.Eq(a, b), smt.Not(self.ws_char(smt.At(s, a)))))
        if right:
            st.assume(self.ws_member(smt.Substr(s, b, smt.Sub(n, b))))
            st.assume(smt.Or(smt.Eq(a, b), smt.Not(self.ws_char(smt.At(s, smt.Sub(b, smt.Int(1)))))))
        if left and right:
            # all-whitespace strings strip to "" with a == b anywhere; fix a == b == ... is implied by r == ""
            pass
        self.strip_cache[key] = (r, list(st.pc[mark:]))
        return r

    def str_method(self, recv, name, pos, kw, st, exc):
        s = recv.ts[0]
        args = [p for p in pos]
        if name in ("strip", "lstrip", "rstrip"):
            if args:
                self.note("str.%s(chars) abstracted" % name)
                return mk_str(self.uf("str_%s_chars" % name, [s, self.coerce(args[0], TSTR, st).t], STR))
            return mk_str(self.strip_model(s, st, name != "rstrip", name != "lstrip"))
        if name == "find":
            sub = self.coerce(args[0], TSTR, st).t
            start = self.coerce(args[1], TINT, st).t if len(args) > 1 else smt.Int(0)
            return mk_int(smt.app("str.indexof", INT, s, sub, start))
        if name == "index":
            sub = self.coerce(args[0], TSTR, st).t
            self.require_noexc(st, smt.Contains(s, sub), "ValueError", "str_index", exc)
            return mk_int(smt.app("str.indexof", INT, s, sub, smt.Int(0)))
        if name == "rfind":
            sub = self.coerce(args[0], TSTR, st).t
            r = self.uf("str_rfind", [s, sub], INT)
            n, m = smt.Len(s), smt.Len(sub)
            st.assume(smt.Eq(smt.Eq(r, smt.Int(-1)), smt.Not(smt.Contains(s, sub))))
            st.assume(smt.Or(smt.Eq(r, smt.Int(-1)), smt.And(
                smt.Le(smt.Int(0), r), smt.Le(smt.Add(r, m), n),
                smt.Eq(smt.Substr(s, r, m), sub),
                smt.Not(smt.Contains(smt.Substr(s, smt.Add(r, smt.Int(1)), smt.Sub(n, smt.Add(r, smt.Int(1)))), sub)))))
            return mk_int(r)
        if name in ("startswith", "endswith"):
            a = args[0]
            subs = tuple_items(a) if a.ty.kind == "tuple" else [a]
            op = "str.prefixof" if name == "startswith" else "str.suffixof"
            return mk_bool(smt.Or(*[smt.app(op, BOOL, self.coerce(x, TSTR, st).t, s) for x in subs]))
        if name in ("lower", "upper", "expandtabs", "title", "capitalize", "swapcase", "casefold"):
            if smt.is_const(s):
                return mk_str(getattr(smt.const_val(s), name)())
            r = self.uf("str_" + name, [s], STR)
            if name in ("lower", "upper"):
                st.assume(smt.Eq(smt.Eq(r, smt.Str("")), smt.Eq(s, smt.Str(""))))
                if "case_idempotent" in self.contract.str_axioms:
                    st.assume(smt.Eq(self.uf("str_" + name, [r], STR), r))      # [A, validated on CPython]
                    self.assumptions_used.add("str.%s is idempotent" % name)
                if "case_keeps_quotes" in self.contract.str_axioms:
                    # case mapping neither creates nor removes quote characters [A, validated on CPython]
                    for ch in ("'", '"'):
                        st.assume(smt.Eq(smt.Contains(r, smt.Str(ch)), smt.Contains(s, smt.Str(ch))))
                    self.assumptions_used.add("str.%s neither creates nor removes the quote characters" % name)
            return mk_str(r)
        if name in ("isdigit", "isalnum", "isspace", "isalpha", "isupper", "islower", "isidentifier"):
            return mk_bool(self.truthy(SV(TANY, [self.uf("str_" + name, [s], U)])))
        if name == "replace":
            a = self.coerce(args[0], TSTR, st).t
            b = self.coerce(args[1], TSTR, st).t
            if len(args) == 3:
                if not (smt.is_const(self.coerce(args[2], TINT, st).t) and smt.const_val(args[2].t) == 1):
                    raise Unsupported("str.replace count != 1")
                if not (smt.is_const(a) and smt.const_val(a) != ""):
                    st.assume(smt.Not(smt.Eq(a, smt.Str(""))))  # callers never pass "" (checked by noexc below)
                return mk_str(smt.app("str.replace", STR, s, a, b))
            if smt.is_const(a) and smt.const_val(a) != "":
                return mk_str(smt.app("str.replace_all", STR, s, a, b))
            raise Unsupported("str.replace with symbolic/empty pattern")
        if name == "join":
            lst = args[0]
            if lst.ty.kind == "list":
                if lst.ty.args[0].kind == "unknown":
                    return mk_str("")
                if lst.ty.args[0].kind in ("str", "tstr"):
                    if not (smt.is_const(s) and smt.const_val(s) == ""):
                        return mk_str(self.join_sep(lst.ts[0], s))
                    return mk_str(self.join_empty(lst.ts[0]))
            return mk_str(self.uf("str_join", [s, self.to_u(lst)], STR))
        if name == "format":
            if smt.is_const(s):
                return mk_str(self.format_model(smt.const_val(s), args, kw, st))
            return mk_str(self.uf("str_format", [s] + [self.to_u(a) for a in args], STR))
        if name in ("split", "rsplit") and len(args) == 2 and args[0].ty.kind in ("str", "tstr") \
                and args[1].ty.kind == "int" and smt.is_const(args[1].t) and smt.const_val(args[1].t) == 1:
            # exact model of s.split(sep, 1) / s.rsplit(sep, 1): at most one cut, at the first / last occurrence
            sep = self.coerce(args[0], TSTR, st).t
            self.require_noexc(st, smt.Not(smt.Eq(sep, smt.Str(""))), "ValueError", "empty_separator", exc)
            if name == "split":
                k = smt.app("str.indexof", INT, s, sep, smt.Int(0))
            else:
                k = self.str_method(SV(TSTR, [s]), "rfind", [args[0]], {}, st, exc).t
            n, m = smt.Len(s), smt.Len(sep)
            two = smt.Concat(smt.Unit(smt.Substr(s, smt.Int(0), k)), smt.Unit(smt.Substr(s, smt.Add(k, m), smt.Sub(n, smt.Add(k, m)))))
            return SV(ListT(TSTR), [smt.Ite(smt.Lt(k, smt.Int(0)), smt.Unit(s), two)])
        if name == "split" or name == "rsplit" or name == "splitlines":
            self.note("str.%s abstracted" % name)
            lst = self.ctx.fresh("split", smt.seq(STR))
            r = SV(ListT(TSTR), [self.uf("str_" + name, [s] + [self.to_u(a) for a in args], smt.seq(STR))])
            st.assume(smt.Ge(smt.Len(r.ts[0]), smt.Int(1 if name != "splitlines" else 0)))
            return r
        if name == "count":
            r = self.uf("str_count", [s, self.coerce(args[0], TSTR, st).t], INT)
            st.assume(smt.Ge(r, smt.Int(0)))
            return mk_int(r)
        if name == "encode":
            return self.opaque("str_encode", [recv])
        raise Unsupported("str method %s" % name)

    def join_empty(self, seqt):
        self.ctx.define("joinr", [("x", smt.seq(STR))], STR,
                        '(ite (= (seq.len x) 0) "" (str.++ (joinr (seq.extract x 0 (- (seq.len x) 1))) (seq.nth x (- (seq.len x) 1))))',
                        rec=True)
        return smt.app("joinr", STR, seqt)

    def join_sep(self, seqt, sep):
        self.ctx.define("joinsep", [("x", smt.seq(STR)), ("s", STR)], STR,
                        '(ite (= (seq.len x) 0) "" (ite (= (seq.len x) 1) (seq.nth x 0) '
                        '(str.++ (joinsep (seq.extract x 0 (- (seq.len x) 1)) s) s (seq.nth x (- (seq.len x) 1)))))',
                        rec=True)
        return smt.app("joinsep", STR, seqt, sep)

    def format_model(self, fmt, args, kw, st):
        out = smt.Str("")
        pos = 0
        auto = 0
        for m in re.finditer(r"\{\{|\}\}|\{([^{}!:]*)(?:!([rs]))?(?::([^{}]*))?\}", fmt):
            out = smt.Concat(out, smt.Str(fmt[pos:m.start()].replace("{{", "{").replace("}}", "}")))
            pos = m.end()
            if m.group(0) in ("{{", "}}"):
                out = smt.Concat(out, smt.Str(m.group(0)[0]))
                continue
            key = m.group(1)
            if key == "":
                v = args[auto]
                auto += 1
            elif key.isdigit():
                v = args[int(key)]
            elif key in kw:
                v = kw[key]
            else:
                raise Unsupported("format field %r" % key)
            if m.group(3):
                out = smt.Concat(out, self.uf("fmtspec", [self.to_u(v)], STR))
            else:
                out = smt.Concat(out, self.to_text(v, st, m.group(2) or "s"))
        return smt.Concat(out, smt.Str(fmt[pos:].replace("{{", "{").replace("}}", "}")))

    # ------------------------------------------------------------ list methods
    def list_method(self, recv, recv_ast, name, pos, kw, st, exc):
        unknown = recv.ty.args[0].kind == "unknown"
        if name in ("append", "appendleft", "insert"):
            if name == "insert":
                idx = self.coerce(pos[0], TINT, st).t
                if not (smt.is_const(idx) and smt.const_val(idx) == 0):
                    raise Unsupported("list.insert at non-zero index")
                v = pos[1]
                front = True
            else:
                v = pos[0]
                front = name == "appendleft"
            if unknown:
                elty = v.ty if v.ty.kind != "none" else None
                decl = self.declared_list_type(recv_ast)
                if decl is not None:
                    elty = decl.args[0]
                if elty is None:
                    raise Unsupported("append None to untyped list")
                recv = self.coerce(recv, ListT(elty), st)
            elty = recv.ty.args[0]
            jt = self.join_types(elty, v.ty)
            if jt != elty:
                if jt.kind == "any":
                    raise Unsupported("append %r to %r" % (v.ty, recv.ty))
                recv = self.coerce(recv, ListT(jt), st)
                elty = jt
            v = self.coerce(v, elty, st)
            units = [smt.Unit(t) for t in v.ts]
            new = [smt.Concat(u, c) if front else smt.Concat(c, u) for c, u in zip(recv.ts, units)]
            if elty.kind in ("str", "tstr") and not front and "joinr" in self.ctx.decls:
                # instance of the lemma joinr(xs ++ [s]) == joinr(xs) ++ s (proved once, see lemma obligations)
                self.lemmas_used.add("joinr_append")
                st.assume(smt.Eq(self.join_empty(new[0]), smt.Concat(self.join_empty(recv.ts[0]), v.ts[0])))
            if elty.kind == "ref" and not front and "cons" in self.defined_specs:
                # instance of the lemma cons(xs + [o]) == cons(xs) + consumed(o) (proved once per function)
                self.lemmas_used.add("cons_append")
                old_l, new_l = SV(ListT(Ref()), recv.ts), SV(ListT(Ref()), new)
                st.assume(smt.Eq(self.spec_app("cons", [new_l], st).ts[0],
                                 smt.Concat(self.spec_app("cons", [old_l], st).ts[0], self.spec_app("consumed", [SV(Ref(), v.ts)], st).ts[0])))
            self.assign_to(recv_ast, SV(recv.ty, new), st, exc)
            return [(st, NONE)]
        if name in ("pop", "popleft"):
            if unknown:
                self.require_noexc(st, smt.FALSE, "IndexError", "pop_empty", exc)
                return []
            n = smt.Len(recv.ts[0])
            first = name == "popleft"
            if name == "pop" and pos:
                idx = self.coerce(pos[0], TINT, st).t
                if smt.is_const(idx) and smt.const_val(idx) == 0:
                    first = True
                elif not (smt.is_const(idx) and smt.const_val(idx) == -1):
                    raise Unsupported("list.pop(i)")
            self.require_noexc(st, smt.Gt(n, smt.Int(0)), "IndexError", "pop_empty", exc)
            if st.infeasible():
                return []
            if first:
                val = SV(recv.ty.args[0], [smt.At(c, smt.Int(0)) for c in recv.ts])
                new = [smt.Substr(c, smt.Int(1), smt.Sub(n, smt.Int(1))) for c in recv.ts]
            else:
                val = SV(recv.ty.args[0], [smt.At(c, smt.Sub(n, smt.Int(1))) for c in recv.ts])
                new = [smt.Substr(c, smt.Int(0), smt.Sub(n, smt.Int(1))) for c in recv.ts]
            self.assign_to(recv_ast, SV(recv.ty, new), st, exc)
            return [(st, val)]
        if name == "reverse":
            if unknown:
                return [(st, NONE)]
            new = []
            for c in recv.ts:
                r = self.uf("seq_rev_" + re.sub(r"\W", "", c.sort), [c], c.sort)
                n = smt.Len(c)
                st.assume(smt.Eq(smt.Len(r), n))
                iv = T("i!rev", INT)
                st.assume(smt.Forall([("i!rev", INT)], smt.Implies(
                    smt.And(smt.Le(smt.Int(0), iv), smt.Lt(iv, n)),
                    smt.Eq(smt.At(r, iv), smt.At(c, smt.Sub(smt.Sub(n, smt.Int(1)), iv))))))
                new.append(r)
            self.assign_to(recv_ast, SV(recv.ty, new), st, exc)
            return [(st, NONE)]
        if name == "copy":
            return [(st, recv)]
        if name == "extend":
            v = pos[0]
            if v.ty.kind != "list":
                raise Unsupported("extend with %r" % (v.ty,))
            if v.ty.args[0].kind == "unknown":
                return [(st, NONE)]
            if unknown:
                recv = self.coerce(recv, v.ty, st)
            v = self.coerce(v, recv.ty, st)
            new = [smt.Concat(a, b) for a, b in zip(recv.ts, v.ts)]
            if recv.ty.args[0].kind == "ref" and "cons" in self.defined_specs:
                # instance of the lemma cons(xs + ys) == cons(xs) + cons(ys) (proved once per function, by induction on ys)
                self.lemmas_used.add("cons_concat")
                mk = lambda ts: self.spec_app("cons", [SV(ListT(Ref()), ts)], st).ts[0]      # noqa: E731
                st.assume(smt.Eq(mk(new), smt.Concat(mk(recv.ts), mk(v.ts))))
            self.assign_to(recv_ast, SV(recv.ty, new), st, exc)
            return [(st, NONE)]
        if name == "remove":
            if unknown or len(recv.ts) != 1:
                raise Unsupported("list.remove on %r" % (recv.ty,))
            x = self.coerce(pos[0], recv.ty.args[0], st).ts[0]
            c = recv.ts[0]
            n = smt.Len(c)
            self.require_noexc(st, smt.Contains(c, smt.Unit(x)), "ValueError", "remove_absent", exc)
            j = self.ctx.fresh("inst_j", INT)        # position of the first occurrence
            iv = T("i!rm", INT)
            st.assume(smt.And(smt.Le(smt.Int(0), j), smt.Lt(j, n), smt.Eq(smt.At(c, j), x)))
            inner = smt.Implies(smt.And(smt.Le(smt.Int(0), iv), smt.Lt(iv, j)), smt.Not(smt.Eq(smt.At(c, iv), x)))
            q = smt.Forall([("i!rm", INT)], inner)
            self.ctx.qreg[q.s] = ("i!rm", inner.s, INT)
            st.assume(q)
            new = smt.Concat(smt.Substr(c, smt.Int(0), j), smt.Substr(c, smt.Add(j, smt.Int(1)), smt.Sub(n, smt.Add(j, smt.Int(1)))))
            self.assign_to(recv_ast, SV(recv.ty, [new]), st, exc)
            return [(st, NONE)]
        if name == "index" or name == "count":
            raise Unsupported("list.%s" % name)
        raise Unsupported("list method %s" % name)

    def declared_list_type(self, target_ast):
        if isinstance(target_ast, ast.Name) and target_ast.id in self.contract.locals:
            return parse_type(self.contract.locals[target_ast.id])
        if isinstance(target_ast, ast.Attribute) and self.field_type(target_ast.attr) is not None:
            return self.field_type(target_ast.attr)
        return None

    # ------------------------------------------------------------ dict methods
    def dict_method(self, recv, recv_ast, name, pos, kw, st, exc):
        unknown = recv.ty.args[0].kind == "unknown"
        if name == "get":
            if unknown:
                decl = self.declared_list_type(recv_ast)
                if decl is None:
                    return [(st, pos[1] if len(pos) > 1 else NONE)]
                recv = self.empty_dict(decl)
            k = self.coerce(pos[0], recv.ty.args[0], st)
            present = smt.Select(recv.ts[0], k.ts[0])
            val = SV(recv.ty.args[1], [smt.Select(a, k.ts[0]) for a in recv.ts[1:]])
            dflt = pos[1] if len(pos) > 1 else NONE
            ty = self.join_types(val.ty, dflt.ty)
            return [(st, sv_ite(present, self.coerce(val, ty, st), self.coerce(dflt, ty, st)))]
        if name == "values" and recv.ty.args[1].kind not in ("unknown", "any"):
            # the values in iteration order: an uninterpreted sequence determined by the dict (pure function of it)
            vt = recv.ty.args[1]
            ts = [self.uf("dict_values_%d" % i, list(recv.ts), smt.seq(srt)) for i, srt in enumerate(flatten(vt))]
            v = SV(ListT(vt), ts)
            for t in ts[1:]:
                st.assume(smt.Eq(smt.Len(t), smt.Len(ts[0])))
            ks = flatten(recv.ty.args[0])[0]
            empty = smt.Eq(recv.ts[0], T("((as const %s) false)" % smt.arr(ks, BOOL), smt.arr(ks, BOOL)))
            if not self.spec_mode:
                st.assume(smt.Eq(smt.Eq(smt.Len(ts[0]), smt.Int(0)), empty))      # no values iff no keys
            return [(st, v)]
        if name in ("keys", "values", "items"):
            return [(st, self.opaque("dict_" + name, [recv]))]
        raise Unsupported("dict method %s" % name)

    def empty_dict(self, ty):
        ks = flatten(ty.args[0])[0]
        ts = [T("((as const %s) false)" % smt.arr(ks, BOOL), smt.arr(ks, BOOL))]
        for s in flatten(ty.args[1]):
            ts.append(self.ctx.const("dflt_arr_%s" % re.sub(r"\W", "_", s), smt.arr(ks, s)))
        return SV(ty, ts)


from .engine_core import STR_TAGS  # noqa: E402
