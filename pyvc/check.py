"""Property check driver.

  python3-vt -m pyvc.check --property C02 --tier quick
  python3-vt -m pyvc.check --setup

Exit 0: property held on everything explored.  Exit 1: a line
`VIOLATION property=<id> replay=<path>` was printed.  Exit 3: the checker
itself failed (never reported as a violation).
"""
import json
import os
import re
import subprocess
import sys
import time
import traceback
from concurrent.futures import ThreadPoolExecutor

ROOT = os.path.dirname(os.path.dirname(os.path.abspath(__file__)))
OUT = os.environ.get("VERIF_OUT", ROOT)      # evaluation of seeded changes on scratch copies writes elsewhere
sys.path.insert(0, ROOT)
from pyvc import contracts as C, engine, discharge, smt, solve, extract  # noqa: E402
from pyvc.values import parse_type  # noqa: E402

VENV_PY = "/venv/bin/python"
JOBS = int(os.environ.get("VERIF_JOBS", "16"))


def sh_json(argv, timeout=3600):
    env = dict(os.environ, PYTHONDONTWRITEBYTECODE="1")
    p = subprocess.run(argv, capture_output=True, text=True, timeout=timeout, env=env)
    if p.returncode not in (0,):
        raise RuntimeError("command failed (%d): %s\n%s" % (p.returncode, " ".join(argv), (p.stderr or p.stdout)[-2000:]))
    line = p.stdout.strip().splitlines()[-1]
    return json.loads(line)


# ---------------------------------------------------------------- known findings
def load_known():
    path = os.path.join(ROOT, "KNOWN_FINDINGS.json")
    if not os.path.exists(path):
        return []
    return json.load(open(path))["findings"]


def load_baseline():
    path = os.path.join(ROOT, "baseline", "proved.json")
    if not os.path.exists(path):
        return {}
    return json.load(open(path))


_WITNESS = {}


def witness_fails(kf):
    """a listed finding suppresses a failed obligation only while its recorded witness still fails"""
    w = (kf.get("witness") or {}).get("scenario")
    if w is None:
        return True
    if w not in _WITNESS:
        p = subprocess.run([VENV_PY, os.path.join(ROOT, "checks", "witness.py"), w], capture_output=True, text=True,
                           env=dict(os.environ, PYTHONDONTWRITEBYTECODE="1"), timeout=300)
        _WITNESS[w] = p.returncode == 1
    return _WITNESS[w]


# ---------------------------------------------------------------- model -> input
def parse_values(out):
    """parse a (get-value ...) answer into {name: python value}"""
    m = re.search(r"\(\((.*)\)\)\s*$", out.strip(), re.S)
    vals = {}
    text = out
    for name, val in re.findall(r'\(([^\s()]+) ("(?:[^"]|"")*"|\(- \d+\)|[^\s()]+)\)', text):
        if val.startswith('"'):
            body = val[1:-1].replace('""', '"')
            body = re.sub(r"\\u\{([0-9a-fA-F]+)\}", lambda mm: chr(int(mm.group(1), 16)), body)
            body = re.sub(r"\\x([0-9a-fA-F]{2})", lambda mm: chr(int(mm.group(1), 16)), body)
            vals[name] = body
        elif val in ("true", "false"):
            vals[name] = val == "true"
        elif val.startswith("(-"):
            vals[name] = -int(val[3:-1])
        elif re.fullmatch(r"\d+", val):
            vals[name] = int(val)
    return vals


def model_input(eng, ob, timeout_s):
    """try to turn a refutation into concrete arguments of the function"""
    con = eng.contract
    names = []
    shape = {}
    for p, v in eng.params_env.items():
        k = v.ty.kind
        if k in ("int", "bool", "str"):
            shape[p] = ("plain", v.ts[0].s)
            names.append(v.ts[0].s)
        elif k == "opt" and v.ty.args[0].kind in ("int", "bool", "str"):
            shape[p] = ("opt", v.ts[0].s, v.ts[1].s)
            names += [v.ts[0].s, v.ts[1].s]
        else:
            return None
    if not names:
        return None
    txt = discharge.script_for(eng, ob, get_values=names)
    r = solve.solve(txt, timeout_s=timeout_s)
    if r.status != "sat":
        return None
    vals = parse_values(r.output)
    kwargs = {}
    for p, sh in shape.items():
        if sh[0] == "plain":
            if sh[1] not in vals:
                return None
            kwargs[p] = vals[sh[1]]
        else:
            if vals.get(sh[1]) is True:
                kwargs[p] = None
            elif sh[2] in vals:
                kwargs[p] = vals[sh[2]]
            else:
                return None
    return kwargs


# ---------------------------------------------------------------- proof units
def relevant_clause(con, oid, prop):
    """does the obligation belong to the chain of this property (clause_props of the contract)?"""
    if prop is None:
        return True
    clause = oid.split("#", 1)[1]
    rel = [ps for pre, ps in con.clause_props.items() if clause.startswith(pre)]
    return not rel or any(prop in ps for ps in rel)


def verify_contract(fid, tier, timeout_s, prop=None):
    con = C.CONTRACTS[fid]
    g = engine.generate(con)
    eng, obs = g["engine"], g["obligations"]
    n_all = len(obs)
    # obligations of clauses that serve other properties only are generated (they count for the vacuity guard) but
    # not discharged in this property's run
    obs = [ob for ob in obs if relevant_clause(con, ob.oid, prop)]
    # clauses the contract declares out of the solvers' reach are left to the bounded stand-in without an attempt
    declared = [ob for ob in obs if any(("#post.%s@" % c) in ob.oid or ob.oid.endswith("#post." + c) for c in con.bounded_clauses)]
    obs = [ob for ob in obs if ob not in declared]
    rec = dict(contract=fid, error=g["error"], gen_seconds=round(g["seconds"], 3), obligations={}, n_vcs=n_all,
               notes=[], assumptions=[], ast_hash=None, callees=[])
    if eng is None:
        return rec, None, []
    rec["ast_hash"] = extract.normalised_hash(eng.found.node)
    rec["notes"] = list(eng.notes)
    if getattr(eng, "renamed", None):
        rec["notes"].append("verified up to a consistent renaming of locals (current name -> name in the sidecar): %s" % ", ".join("%s -> %s" % kv for kv in sorted(eng.renamed.items())))
    rec["assumptions"] = sorted(eng.assumptions_used)
    rec["callees"] = sorted(eng.callees)
    rec["trivial"] = eng.trivial
    rec["paths"] = eng.paths
    rec["exits"] = dict(eng.exits)
    # vacuity: the precondition must be satisfiable
    pre = eng.ctx.script(list(eng.pre_pc) + [smt.TRUE]) if getattr(eng, "pre_pc", None) is not None else None
    if pre is not None and eng.pre_pc:
        r = solve.solve(pre, timeout_s=min(timeout_s, 10))
        rec["precondition_sat"] = r.status
        if r.status == "unsat":
            rec["error"] = "vacuous: precondition unsatisfiable"
    res = discharge.discharge(eng, obs, timeout_s=timeout_s, jobs=JOBS)
    by = {}
    for r in res:
        by.setdefault(r["ob"].oid, []).append(r)
    for oid, rs in by.items():
        sts = {r["status"] for r in rs}
        st = "refuted" if "refuted" in sts else "undecided" if "undecided" in sts else "proved"
        if st == "undecided" and any(r.get("weak_sat") for r in rs):
            st = "refuted-weak"
        rec["obligations"][oid] = dict(status=st, vcs=len(rs), seconds=round(sum(r["seconds"] for r in rs), 3),
                                       solvers=sorted({str(r["solver"]) for r in rs if r["solver"]}),
                                       kind=rs[0]["ob"].kind, text=rs[0]["ob"].text[:200],
                                       lines=sorted({r["ob"].line for r in rs}))
    for ob in declared:
        rec["obligations"].setdefault(ob.oid, dict(status="undecided", vcs=0, seconds=0.0, solvers=[], kind=ob.kind, text=ob.text[:200],
                                                   lines=[ob.line], note="declared bounded in the contract: no solver attempt"))
        rec["obligations"][ob.oid]["vcs"] += 1
    return rec, eng, res


def bounded_run(fid, tier, seed):
    con = C.CONTRACTS[fid]
    if con.domain is None:
        return None
    shards = JOBS if tier == "thorough" else min(JOBS, 8)

    def one(k):
        return sh_json([VENV_PY, os.path.join(ROOT, "pyvc", "concrete.py"), "--contract", fid, "--tier", tier,
                        "--seed", str(seed), "--shard", "%d/%d" % (k, shards)])

    with ThreadPoolExecutor(max_workers=shards) as ex:
        parts = list(ex.map(one, range(shards)))
    out = dict(contract=fid, domain=parts[0].get("domain"), domain_size=parts[0].get("domain_size"),
               evaluations=sum(p["evaluations"] for p in parts), nontrivial=sum(p["nontrivial"] for p in parts),
               failures=[f for p in parts for f in p["failures"]][:5], samples=[s for p in parts for s in p["samples"]][:3],
               seconds=max(p["seconds"] for p in parts), exhaustive=True)
    return out


def run_enum(script, tier, seed):
    """an enumeration / structural check living in /verif/checks, run on the real code"""
    parts = script.split()
    path = os.path.join(ROOT, "checks", parts[0])
    return sh_json([VENV_PY, path] + parts[1:] + ["--tier", tier, "--seed", str(seed)])


def write_replay(prop, name, data):
    d = os.path.join(OUT, "replay", prop)
    os.makedirs(d, exist_ok=True)
    path = os.path.join(d, re.sub(r"[^A-Za-z0-9_.#-]", "_", name) + ".json")
    with open(path, "w") as f:
        json.dump(data, f, indent=1, default=str)
    return path


def main(argv):
    if "--setup" in argv:
        return setup()
    if "--write-baseline" in argv:
        return write_baseline()
    prop = argv[argv.index("--property") + 1]
    tier = os.environ.get("VERIF_TIER") or (argv[argv.index("--tier") + 1] if "--tier" in argv else "quick")
    if "--tier" in argv:
        tier = argv[argv.index("--tier") + 1]
    seed = int(os.environ.get("VERIF_SEED", "0") or 0)
    t0 = time.time()
    try:
        return run_property(prop, tier, seed, t0)
    except Exception:
        traceback.print_exc()
        print("CHECKER-ERROR property=%s (exit 3; not a violation)" % prop)
        return 3


def abstraction_notes(notes):
    """the notes that record a call or value abstracted away (no contract for a callee, opaque values): a refutation that
    needs one of them is a refutation of the abstraction, not of the code"""
    return sorted({n for n in notes if n.startswith(("opaque call", "call with *args", "opaque global", "regex method")) or " abstracted" in n})


def write_baseline():
    """record which obligations are proved on the tree as it is now (run on the unchanged tree, committed)"""
    C.load_all()
    out = {}
    for fid, con in sorted(C.CONTRACTS.items()):
        if con.trusted or con.bounded_only:
            continue
        rec, eng, res = verify_contract(fid, "quick", 10)
        out[fid] = dict(ast=rec["ast_hash"], abstractions=abstraction_notes(rec["notes"]), proved=sorted(o for o, v in rec["obligations"].items() if v["status"] == "proved"),
                        not_proved=sorted(o for o, v in rec["obligations"].items() if v["status"] != "proved"), error=rec["error"])
        print(fid, len(out[fid]["proved"]), "proved;", out[fid]["not_proved"], rec["error"] or "")
    os.makedirs(os.path.join(ROOT, "baseline"), exist_ok=True)
    json.dump(out, open(os.path.join(ROOT, "baseline", "proved.json"), "w"), indent=1)
    srcs = {}
    for fid in out:
        try:
            srcs[fid.split("@")[0]] = extract.normalised_source(extract.find(fid).node)
        except KeyError:
            pass
    json.dump(srcs, open(os.path.join(ROOT, "baseline", "sources.json"), "w"), indent=1)
    errs = [f for f, r in out.items() if r["error"]]
    for f in errs:
        print("BASELINE-ERROR", f, out[f]["error"])
    print("baseline: %d functions, %d obligations proved, %d not proved, %d checker errors" % (
        len(out), sum(len(r["proved"]) for r in out.values()), sum(len(r["not_proved"]) for r in out.values()), len(errs)))
    return 3 if errs else 0


def setup():
    names = solve.available()
    print("solvers:", names)
    if len(names) < 2:
        print("need at least two solvers")
        return 3
    r = solve.solve("(set-logic ALL)(declare-fun x () Int)(assert (> x 0))(assert (< x 0))(check-sat)", 5)
    if r.status != "unsat":
        print("solver smoke test failed", r.status)
        return 3
    p = subprocess.run([VENV_PY, "-c", "import fparser, sys; print(fparser.__file__)"], capture_output=True, text=True)
    print("fparser:", p.stdout.strip())
    if p.returncode != 0:
        return 3
    os.makedirs(os.path.join(OUT, "evidence"), exist_ok=True)
    return 0


def run_property(prop, tier, seed, t0):
    C.load_all()
    sys.path.insert(0, os.path.join(ROOT, "checks"))
    import registry
    spec = registry.PROPS[prop]
    timeout_s = int(os.environ.get("VERIF_TIMEOUT", "24" if tier == "quick" else "60"))   # generous: verdicts must not flip when all cores are busy
    known = [k for k in load_known() if k.get("status") == "open"]
    baseline = load_baseline()
    known_hit = {}
    violations = []       # (name, replay path, tail)
    functions = []
    n_ob = n_proved = 0
    solver_seconds = 0.0
    by_backend = {}
    undecided = []
    bounded = []
    enums = []
    samples = []
    assumptions = set(spec.get("assumptions", []))
    errors = []
    inapplicable = []

    proof_ids = [fid for fid, c in C.CONTRACTS.items() if prop in c.serves and not c.trusted and not c.bounded_only]
    spec = dict(spec)
    spec["bounded"] = list(spec.get("bounded", [])) + [fid for fid, c in C.CONTRACTS.items() if prop in c.serves and c.bounded_only]
    for fid in sorted(proof_ids):
        rec, eng, res = verify_contract(fid, tier, timeout_s, prop)
        functions.append(rec)
        if rec["error"]:
            base = baseline.get(fid, {})
            changed = bool(base) and not base.get("error") and base.get("ast") and (
                (rec.get("ast_hash") and base["ast"] != rec["ast_hash"]) or str(rec["error"]).startswith("missing"))
            if changed and not str(rec["error"]).startswith("vacuous"):
                # the function was rewritten since the baseline and the sidecar (loop ordinals, locals named in invariants,
                # program points) no longer applies to it: nothing is proved for it and nothing is refuted - the bounded
                # checks and enumerations of the property decide.  Never a violation, and not an error of the machinery.
                inapplicable.append("%s: %s" % (fid, rec["error"]))
            else:
                errors.append("%s: %s" % (fid, rec["error"]))
        for a in rec["assumptions"]:
            assumptions.add(a)
        if rec["n_vcs"] + (rec.get("trivial") or 0) == 0 and not rec["error"]:
            errors.append("%s: zero obligations generated" % fid)
        need_bounded = False
        for oid, o in rec["obligations"].items():
            clause = oid.split("#", 1)[1]
            rel = [ps for pre, ps in C.CONTRACTS[fid].clause_props.items() if clause.startswith(pre)]
            if rel and not any(prop in ps for ps in rel):
                continue          # this clause belongs to other properties' chains
            n_ob += 1
            solver_seconds += o["seconds"]
            for s in o["solvers"]:
                by_backend[s] = by_backend.get(s, 0) + 1
            if o["status"] == "proved":
                n_proved += 1
                if len(samples) < 4:
                    samples.append(dict(obligation=oid, status="proved", vcs=o["vcs"], solvers=o["solvers"], clause=o["text"]))
                continue
            kf = [k for k in known if k.get("obligation") == oid]
            was_proved = oid in baseline.get(fid, {}).get("proved", [])
            if o["status"] == "undecided" or (o["status"] == "refuted-weak" and not was_proved and not kf):
                undecided.append(oid)
                need_bounded = True
                continue
            # refuted: find a failing input on the real code
            failing = None
            solver_out = ""
            for r in res:
                if r["ob"].oid == oid and r.get("weak_sat") and not solver_out:
                    try:
                        txt = discharge.script_for(eng, r["ob"], keep_quantifiers=False, extra_terms=True, unfold=True)
                        mr = solve.solve("(set-option :produce-models true)\n" + txt + "(get-model)\n", timeout_s=20, solvers=["cvc5-1.0.3"])
                        model = mr.output
                    except Exception:
                        model = r.get("weak_output", "")
                    solver_out = ("obligation proved on the unchanged tree is now satisfiable (hypotheses kept, quantified ones instantiated at the "
                                  "goal's terms, recursive specs unfolded); model from cvc5:\n%s" % model)
                if r["ob"].oid == oid and r["status"] == "refuted":
                    solver_out = r["output"]
                    try:
                        kwargs = model_input(eng, r["ob"], timeout_s)
                    except Exception:
                        kwargs = None
                    if kwargs is not None:
                        out = sh_json([VENV_PY, os.path.join(ROOT, "pyvc", "concrete.py"), "--contract", fid,
                                       "--input", json.dumps(kwargs)])
                        if out["status"] == "fail":
                            failing = dict(input=kwargs, failures=out["failures"])
                            break
            if failing is None:
                b = bounded_run(fid, tier, seed)
                if b and b["failures"]:
                    failing = b["failures"][0]
            if kf and witness_fails(kf[0]):
                known_hit[kf[0]["id"]] = kf[0]
                continue
            base = baseline.get(fid, {})
            new_abs = [n for n in abstraction_notes(rec["notes"]) if n not in base.get("abstractions", [])] if "abstractions" in base else []
            if failing is None and new_abs and base.get("ast") and base["ast"] != rec.get("ast_hash"):
                # the function was changed and now calls something the sidecar has no contract for (abstracted as an arbitrary
                # effect): a refutation without an input that fails on the real code is a refutation of that abstraction only
                msg = "%s: %s not decided: the changed function uses %s" % (fid, oid, "; ".join(new_abs)[:200])
                if msg not in inapplicable:
                    inapplicable.append(msg)
                continue
            data = dict(property=prop, contract=fid, obligation=oid, clause=o["text"], lines=o["lines"],
                        status=o["status"], proved_on_baseline=was_proved,
                        input=failing["input"] if failing else None,
                        observed=failing["failures"] if failing else None, solver_output=solver_out[:4000])
            path = write_replay(prop, oid, data)
            violations.append((oid, path, "" if failing else " no-failing-input-found"))
        # bounded stand-in / contract cross-check on the real code
        con = C.CONTRACTS[fid]
        if con.domain is not None:
            b = bounded_run(fid, tier, seed)
            b["role"] = "stand-in for undecided obligations" if need_bounded else "cross-check of proved clauses on CPython"
            bounded.append(b)
            for f in b["failures"]:
                for ff in f["failures"]:
                    oid = "%s#%s" % (engine_short(fid), ff["clause"])
                    if any(v[0] == oid for v in violations):
                        continue
                    kf = [k for k in known if k.get("obligation") == oid and k.get("witness", {}).get("input") == f["input"]]
                    if kf:
                        known_hit[kf[0]["id"]] = kf[0]
                        continue
                    fully = all(o["status"] == "proved" for o in rec["obligations"].values()) and not rec["error"]
                    if fully:
                        errors.append("UNSOUND: %s proved but fails on %r" % (oid, f["input"]))
                        continue
                    data = dict(property=prop, contract=fid, obligation=oid, input=f["input"], observed=f["failures"])
                    path = write_replay(prop, oid, data)
                    violations.append((oid, path, ""))

    for fid in spec.get("bounded", []):
        b = bounded_run(fid, tier, seed)
        b["role"] = "bounded stand-in (function not under proof)"
        bounded.append(b)
        for f in b["failures"]:
            for ff in f["failures"]:
                oid = "%s#%s" % (engine_short(fid), ff["clause"])
                kf = [k for k in known if k.get("obligation") == oid and k.get("witness", {}).get("input") == f["input"]]
                if kf:
                    known_hit[kf[0]["id"]] = kf[0]
                    continue
                if any(v[0] == oid for v in violations):
                    continue
                path = write_replay(prop, oid, dict(property=prop, contract=fid, obligation=oid, input=f["input"], observed=f["failures"]))
                violations.append((oid, path, ""))

    wit = []
    for w in spec.get("witnesses", []):
        p = subprocess.run([VENV_PY, os.path.join(ROOT, "checks", "witness.py"), w], capture_output=True, text=True,
                           env=dict(os.environ, PYTHONDONTWRITEBYTECODE="1"), timeout=600)
        try:
            obs = json.loads(p.stdout.strip().splitlines()[-1])
        except Exception:
            errors.append("witness %s crashed: %s" % (w, (p.stderr or p.stdout)[-300:]))
            continue
        wit.append(obs)
        _WITNESS[w] = p.returncode == 1
        if p.returncode == 1:
            kf = [k for k in known if (k.get("witness") or {}).get("scenario") == w]
            if kf:
                known_hit[kf[0]["id"]] = kf[0]
            else:
                path = write_replay(prop, "witness." + w, dict(property=prop, enum="witness.py", obligation="witness:" + w,
                                                               witness=dict(scenario=w), observed=obs))
                violations.append(("witness:" + w, path, ""))

    for script in spec.get("enum", []):
        only = None
        if isinstance(script, (tuple, list)):
            script, only = script
        try:
            e = run_enum(script, tier, seed)
        except Exception as ex:      # a script that cannot run on this tree: an error of the check (exit 3 unless something else is violated), the others still run
            e = dict(name=script.split()[0], cases=0, failures=[], error="crashed: %s" % str(ex)[-600:])
        if only is not None:
            e["failures"] = [f for f in e.get("failures", []) if any(f["obligation"].startswith(p) for p in only)]
            e["restricted_to"] = list(only)
        enums.append({k: v for k, v in e.items() if k != "failures"} | {"n_failures": len(e.get("failures", []))})
        if e.get("error"):
            errors.append("%s: %s" % (script, e["error"]))
        for a in e.get("assumptions", []):
            assumptions.add(a)
        for f in e.get("failures", []):
            oid = f["obligation"]
            kf = [k for k in known if k.get("obligation") == oid
                  and all((f.get("witness") or {}).get(a) == b for a, b in (k.get("match_witness") or {}).items())
                  and (k.get("match_witness") is not None or k.get("match") == "obligation")]
            if kf and witness_fails(kf[0]):
                known_hit[kf[0]["id"]] = kf[0]
                continue
            path = write_replay(prop, oid + "." + str(len(violations)), dict(property=prop, enum=script.split()[0], obligation=oid, witness=f.get("witness"), observed=f.get("observed")))
            violations.append((oid, path, "" if f.get("witness") is not None else " no-failing-input-found"))

    # -------- evidence
    wall = time.time() - t0
    level = spec.get("level", "other")
    if level == "proof" and (n_proved != n_ob or any(b["role"].startswith("stand-in") or b["role"].startswith("bounded") for b in bounded) or known_hit):
        level = "other"
    evals = sum(b["evaluations"] for b in bounded) + sum(e.get("cases", 0) for e in enums)
    cov = dict(
        obligations=n_ob, discharged=n_proved,
        checker_cmd="python3-vt -m pyvc.check --property %s --tier %s" % (prop, tier),
        trusted_base=["home-made VC generator pyvc (engine_*.py): soundness rests on cross-checks, not on a kernel",
                      "SMT solvers cvc5 1.0.3, z3 4.8.12, z3 5.1.0 (an 'unsat' answer of any one is accepted)",
                      "CPython semantics of the modelled str/list/dict operations (DESIGN 3.2)"],
        explanation=spec.get("explanation", ""),
        functions_under_contract=[dict(function=f["contract"], ast_sha256_16=f["ast_hash"], vcs=f["n_vcs"], trivial=f.get("trivial"),
                                       paths=f.get("paths"), exits=f.get("exits"), error=f["error"],
                                       abstractions=f["notes"], callee_contracts_used=f["callees"],
                                       proved=sum(1 for o in f["obligations"].values() if o["status"] == "proved"),
                                       obligations=len(f["obligations"])) for f in functions],
        extraction_drops="docstrings, comments, type annotations; decorators are modelled (staticmethod/classmethod/property by binding; show_result as identity); logging calls are dropped",
        by_backend=by_backend, solver_seconds=round(solver_seconds, 2),
        undecided=undecided, bounded=bounded, enumerations=enums, witnesses=wit,
        known_findings=[dict(id=k["id"], obligation=k["obligation"], what=k["what"]) for k in known_hit.values()],
        evaluations=max(evals, 1), distinct_nontrivial=max(sum(b["nontrivial"] for b in bounded) + sum(e.get("distinct", 0) for e in enums), 2) if evals else 2,
        rule="bounded: every argument tuple of the stated domain on which the precondition holds, each distinct by construction; enumerations: see each entry",
        samples=samples + [dict(bounded_input=s) for b in bounded for s in b["samples"][:1]] or [dict(note="no sample")],
        exhaustive=all(b.get("exhaustive", False) for b in bounded) if bounded else False,
        checker_errors=errors,
        sidecar_inapplicable=inapplicable,
    )
    ev = dict(property_id=prop, tier=tier, seed=seed, level=level, coverage=cov, assumptions=sorted(assumptions),
              wall_s=round(wall, 2), violations=len(violations))
    os.makedirs(os.path.join(OUT, "evidence"), exist_ok=True)
    with open(os.path.join(OUT, "evidence", prop + ".json"), "w") as f:
        json.dump(ev, f, indent=1, default=str)

    print("property %s tier=%s: %d/%d obligations proved, %d undecided, %d bounded runs (%d evaluations), %d enumerations, %.1fs" % (
        prop, tier, n_proved, n_ob, len(undecided), len(bounded), sum(b["evaluations"] for b in bounded), len(enums), wall))
    for k in known_hit.values():
        print("KNOWN-FINDING: property=%s %s %s" % (prop, k["id"], k["what"]))
    for e in inapplicable:
        print("NOT-VERIFIED property=%s (function changed, sidecar contract no longer applies; decided by the bounded checks only) %s" % (prop, e))
    shown = {}
    for oid, path, tail in violations:
        shown[oid] = shown.get(oid, 0) + 1
        if shown[oid] > 3:
            continue                # further witnesses of the same obligation: replay files are written, lines not repeated
        print("violated obligation: %s" % oid)
        print("VIOLATION property=%s replay=%s%s" % (prop, path, tail))
    for oid, n in shown.items():
        if n > 3:
            print("(%d more failing inputs for %s, see /verif/replay/%s)" % (n - 3, oid, prop))
    if violations:
        for e in errors:
            print("checker error:", e)
        return 1
    if errors:
        for e in errors:
            print("checker error:", e)
        return 3
    return 0


def engine_short(fid):
    return fid.split(".", 1)[1] if fid.startswith("fparser.") else fid


if __name__ == "__main__":
    sys.exit(main(sys.argv[1:]))
