"""Calls: spec macros, builtins, str/list/dict methods, contracts, inlining."""
import ast
import re
from . import smt
from .smt import T, INT, BOOL, STR, U
from .values import *  # noqa
from .values import SV, Ty, Unsupported
from .state import State, Exc, Outcome
from . import contracts as C
from . import extract
from .engine_expr import static_name, STR_TAGS_ALL
from .engine_core import STR_TAGS

WS_RE = ('(re.union (re.range "\\u{9}" "\\u{d}") (re.range "\\u{1c}" "\\u{20}") (str.to_re "\\u{85}") '
         '(str.to_re "\\u{a0}") (str.to_re "\\u{1680}") (re.range "\\u{2000}" "\\u{200a}") '
         '(re.range "\\u{2028}" "\\u{2029}") (str.to_re "\\u{202f}") (str.to_re "\\u{205f}") (str.to_re "\\u{3000}"))')


class CallMixin:
    # ------------------------------------------------------------------ entry
    def ev_Call(self, e, st, exc):
        f = e.func
        src = ast.unparse(f)
        # sidecar override for this call expression
        directive = self.contract.calls.get(src)
        if any(isinstance(a, ast.Starred) for a in e.args) or any(k.arg is None for k in e.keywords):
            if directive is None:
                self.note("call with *args/**kwargs abstracted: %s" % src)
                directive = "opaque"
        if isinstance(f, ast.Name):
            n = f.id
            if self.spec_mode or n in ("implies", "old", "at", "squeeze"):
                r = self.spec_macro(n, e, st, exc)
                if r is not None:
                    return r
            if n in C.SPECS and n not in st.env:
                return self.call_spec(n, e, st, exc)
        if directive is not None:
            return self.call_directive(directive, e, st, exc, src)
        if isinstance(f, ast.Name):
            return self.call_name(f.id, e, st, exc)
        if isinstance(f, ast.Attribute):
            return self.call_attr(f, e, st, exc)
        out = []
        for s, fv in self.ev(f, st, exc):
            out += self.call_value(fv, e, s, exc, src)
        return out

    def eval_args(self, e, st, exc):
        """-> list of (st, [positional SV], {kw: SV})"""
        starred = [isinstance(a, ast.Starred) for a in e.args]
        exprs = [(a.value if isinstance(a, ast.Starred) else a) for a in e.args] + [k.value for k in e.keywords if k.arg]
        names = [k.arg for k in e.keywords if k.arg]
        npos = len(exprs) - len(names)
        out = []
        for s, vs in self.ev_seq(exprs, st, exc):
            pos = []
            for is_star, v in zip(starred, vs[:npos]):
                if not is_star:
                    pos.append(v)
                    continue
                if v.ty.kind == "opt" and v.ty.args[0].kind == "tuple":
                    self.require_noexc(s, smt.Not(v.ts[0]), "TypeError", "star_of_none", exc)
                    v = opt_inner(v)
                if v.ty.kind != "tuple":
                    # *args of unknown arity: dropped (the call is abstracted by its directive or as opaque)
                    self.note("starred argument of type %r dropped" % (v.ty,))
                    continue
                pos += tuple_items(v)      # f(*t) with a tuple of known arity: its items
            out.append((s, pos, dict(zip(names, vs[npos:]))))
        return out

    def squeeze_term(self, t):
        if smt.is_const(t):
            return smt.Str(smt.const_val(t).replace(" ", ""))
        parts = _sexpr_args(t.s)
        if parts is not None:
            op, args = parts
            if op == "str.++":
                out = smt.Str("")
                for a in args:
                    out = smt.Concat(out, self.squeeze_term(T(a, STR)))
                return out
            if op == "ite" and len(args) == 3:
                return smt.Ite(T(args[0], BOOL), self.squeeze_term(T(args[1], STR)), self.squeeze_term(T(args[2], STR)))
            if op == "joinr" and len(args) == 1:
                items = _unit_items(args[0])
                if items is not None:
                    out = smt.Str("")
                    for a in items:
                        out = smt.Concat(out, self.squeeze_term(T(a, STR)))
                    return out
                return self.uf("squeeze_join", [T(args[0], smt.seq(STR)), smt.Str("")], STR)
            if op == "joinsep" and len(args) == 2:
                items = _unit_items(args[0])
                if items is not None:
                    # a join over a list display: the concatenation itself
                    out = smt.Str("")
                    sep = self.squeeze_term(T(args[1], STR))
                    for k, a in enumerate(items):
                        out = smt.Concat(out, self.squeeze_term(T(a, STR)) if k == 0 else smt.Concat(sep, self.squeeze_term(T(a, STR))))
                    return out
                return self.uf("squeeze_join", [T(args[0], smt.seq(STR)), self.squeeze_term(T(args[1], STR))], STR)
        return smt.app("str.replace_all", STR, t, smt.Str(" "), smt.Str(""))

    # ------------------------------------------------------------- spec macros
    def spec_macro(self, n, e, st, exc):
        if n == "implies":
            self.polarity = -self.polarity
            try:
                a = self.truthy(self.ev1(e.args[0], st))
            finally:
                self.polarity = -self.polarity
            b = self.truthy(self.ev1(e.args[1], st))
            return [(st, mk_bool(smt.Implies(a, b)))]
        if n == "old":
            if self.old_state is None and self.in_old:
                return [(st, self.ev1(e.args[0], st))]      # old() inside old(): already the entry state
            if self.old_state is None:
                raise Unsupported("old() outside a postcondition")
            ost = self.old_state.copy()
            ost.pc = st.pc
            saved, self.old_state = self.old_state, None
            self.in_old += 1
            try:
                v = self.ev1(e.args[0], ost)
            finally:
                self.old_state = saved
                self.in_old -= 1
            return [(st, v)]
        if n == "squeeze":
            # squeeze(s): s without its blanks, normalised structurally (constants computed, concatenations and
            # conditionals distributed, joins over a squeezed separator); anything else is an uninterpreted leaf
            v = self.ev1(e.args[0], st)
            if v.ty.kind == "opt":
                v = opt_inner(v)
            return [(st, mk_str(self.squeeze_term(v.ts[0])))]
        if n == "at":
            # at("label", expr): the value of expr in the state recorded at the snapshot site of that label (sidecar
            # 'snapshots'); only on paths that went through the site
            label = e.args[0].value
            if label not in st.snaps:
                raise Unsupported("at(%r): this path did not pass the snapshot site" % label)
            sst = st.snaps[label].copy()
            sst.pc = st.pc
            saved_env = sst.env
            sst.env = dict(st.env)
            sst.env.update(saved_env)
            return [(st, self.ev1(e.args[1], sst))]
        if n in ("all", "any") and len(e.args) == 1 and isinstance(e.args[0], ast.GeneratorExp):
            return [(st, mk_bool(self.quantifier(n, e.args[0], st)))]
        if n == "has_attr":
            o = self.ev1(e.args[0], st)
            if o.ty.kind == "opt":
                o = opt_inner(o)
            attr = e.args[1].value
            return [(st, mk_bool(smt.app(self.ctx.fun("cls_hasattr_" + attr, [INT], BOOL), BOOL, self.typeof(o.ts[0]))))]
        if n == "typeof_is_cls":
            o = self.ev1(e.args[0], st)
            if o.ty.kind == "opt":
                o = opt_inner(o)
            c = self.ev1(e.args[1], st)
            return [(st, mk_bool(smt.Eq(self.typeof(o.ts[0]), c.ts[0])))]
        if n == "cls_has":
            c = self.ev1(e.args[0], st)
            attr = e.args[1].value
            return [(st, mk_bool(self.truthy(SV(TANY, [self.uf("clsattr_" + attr, [c.ts[0]], U)]))))]
        if n == "cls_issub":
            c = self.ev1(e.args[0], st)
            return [(st, mk_bool(self.issub_term(c.ts[0], e.args[1].value)))]
        if n == "nonnull":
            v = self.ev1(e.args[0], st)
            return [(st, opt_inner(v) if v.ty.kind == "opt" else v)]
        if n == "was_allocated":
            v = self.ev1(e.args[0], st)
            if v.ty.kind == "opt":
                v = opt_inner(v)
            return [(st, mk_bool(self.alloc0(v.ts[0])))]
        if n == "dict_subset":
            a, b = self.ev1(e.args[0], st), self.ev1(e.args[1], st)
            ks = flatten(a.ty.args[0])[0]
            def body(k):
                same = [smt.Eq(smt.Select(x, k), smt.Select(y, k)) for x, y in zip(a.ts[1:], b.ts[1:])]
                return smt.Implies(smt.Select(a.ts[0], k), smt.And(smt.Select(b.ts[0], k), *same))
            if self.goal_mode and self.polarity == 1:
                sk = self.ctx.fresh("sk_key", ks)
                self.skolems.append(sk)
                return [(st, mk_bool(body(sk)))]
            self.qcount += 1
            kn = "key!q%d" % self.qcount
            inner = body(T(kn, ks))
            q = smt.Forall([(kn, ks)], inner)
            self.ctx.qreg[q.s] = (kn, inner.s, ks)
            self.ctx.qtag.setdefault(q.s, self.cur_clause)
            return [(st, mk_bool(q))]
        if n == "all_absent":
            d = self.ev1(e.args[0], st)
            if d.ty.args[0].kind == "unknown":
                return [(st, mk_bool(True))]
            ks = flatten(d.ty.args[0])[0]
            return [(st, mk_bool(smt.Eq(d.ts[0], T("((as const %s) false)" % smt.arr(ks, BOOL), smt.arr(ks, BOOL)))))]
        if n == "dict_same_except":
            d, d0, k = [self.ev1(a, st) for a in e.args]
            kv = self.coerce(k, d.ty.args[0], st).ts[0]
            conj = [smt.Eq(a, smt.Store(b, kv, smt.Select(a, kv))) for a, b in zip(d.ts, d0.ts)]
            return [(st, mk_bool(smt.And(*conj)))]
        if n == "old_objects_keep":
            # old_objects_keep("f", ...): every object allocated when the (verified) function was entered has the
            # same f as in the old state.  As a callee's postcondition at a call site this is the sound weakening
            # of the callee's own statement (objects allocated at the caller's entry were allocated at the callee's).
            def body(r):
                conj = []
                for a_ in e.args:
                    cur = self.heap_arr(st, a_.value)
                    old = self.heap_arr(self.old_state, a_.value) if self.old_state is not None else cur
                    conj += [smt.Eq(smt.Select(x, r), smt.Select(y, r)) for x, y in zip(cur.ts, old.ts)]
                known = [self.alloc0(r)]
                if not self.goal_mode:
                    # at a call site the objects this activation created before the call existed at the callee's entry too
                    known += [smt.Eq(r, n_) for n_ in (self.old_state.allocated if self.old_state is not None else ())]
                return smt.Implies(smt.Or(*known), smt.And(*conj))
            goal = self.goal_mode and self.polarity == 1
            if goal:
                sk = self.ctx.fresh("sk_obj", INT)
                self.skolems.append(sk)
                return [(st, mk_bool(body(sk)))]
            self.qcount += 1
            rn = "obj!q%d" % self.qcount
            inner = body(T(rn, INT))
            q = smt.Forall([(rn, INT)], inner)
            self.ctx.qreg[q.s] = (rn, inner.s, INT)
            self.ctx.qtag.setdefault(q.s, self.cur_clause)
            # the receiver of the function under verification is the instance every proof needs
            insts = [body(v.ts[0]) for k_, v in st.env.items() if k_ == "self" and isinstance(v, SV) and v.ty.kind == "ref"]
            if not self.goal_mode:
                insts += [body(n_) for n_ in (self.old_state.allocated if self.old_state is not None else ())]
            return [(st, mk_bool(smt.And(q, *insts)))]
        if n == "unchanged_except":
            # unchanged_except("field", obj): the field differs from its old value at most at obj
            f = e.args[0].value
            cur = self.heap_arr(st, f)
            old = self.heap_arr(self.old_state, f) if self.old_state is not None else cur
            allowed = list(old.ts)
            for a_ in e.args[1:]:
                obj = self.ev1(a_, st)
                if obj.ty.kind == "none":
                    continue
                if obj.ty.kind == "opt":
                    # a None exception changes nothing
                    isn, obj = obj.ts[0], opt_inner(obj)
                    allowed = [smt.Ite(isn, b, smt.Store(b, obj.ts[0], smt.Select(a, obj.ts[0]))) for a, b in zip(cur.ts, allowed)]
                else:
                    allowed = [smt.Store(b, obj.ts[0], smt.Select(a, obj.ts[0])) for a, b in zip(cur.ts, allowed)]
            return [(st, mk_bool(smt.And(*[smt.Eq(a, b) for a, b in zip(cur.ts, allowed)])))]
        if n in ("re_matched", "re_start", "re_end", "re_group"):
            return [(st, self.re_macro(n, e, st))]
        if n == "is_digits":
            v = self.coerce(self.ev1(e.args[0], st), TSTR, st)
            return [(st, mk_bool(T('(str.in_re %s (re.+ (re.range "0" "9")))' % v.t.s, BOOL)))]
        if n == "is_String":
            v = self.ev1(e.args[0], st)
            return [(st, mk_bool(smt.Eq(v.ts[1], smt.Int(1)) if v.ty.kind == "tstr" else smt.FALSE))]
        if n == "is_ParenString":
            v = self.ev1(e.args[0], st)
            return [(st, mk_bool(smt.Eq(v.ts[1], smt.Int(2)) if v.ty.kind == "tstr" else smt.FALSE))]
        if n == "typeof_is":
            v = self.ev1(e.args[0], st)
            name = e.args[1].value
            inner = opt_inner(v) if v.ty.kind == "opt" else v
            if inner.ty.kind == "ref" and inner.ty.cls and self.is_subclass_name(inner.ty.cls, name):
                return [(st, mk_bool(True))]
            return [(st, mk_bool(self.issub_term(self.typeof(self.coerce(v, Ref(), st).ts[0]), name)))]
        return None

    def quantifier(self, kind, gen, st):
        if len(gen.generators) != 1 or gen.generators[0].ifs:
            raise Unsupported("quantifier shape")
        g = gen.generators[0]
        it = g.iter
        if not (isinstance(it, ast.Call) and isinstance(it.func, ast.Name) and it.func.id == "range" and isinstance(g.target, ast.Name)):
            raise Unsupported("quantifier must range over range(lo, hi)")
        args = [self.coerce(self.ev1(a, st), TINT, st).t for a in it.args]
        lo, hi = (smt.Int(0), args[0]) if len(args) == 1 else (args[0], args[1])
        self.qcount += 1
        # a universal goal / existential hypothesis is replaced by a fresh constant
        want = 1 if kind == "all" else -1
        skolemize = self.polarity != 0 and ((self.goal_mode and self.polarity == want) or
                                            (not self.goal_mode and self.polarity == -want))
        if skolemize:
            vt = self.ctx.fresh("sk_" + g.target.id, INT)
            vname = vt.s
            self.skolems.append(vt)
        else:
            vname = "%s!q%d" % (g.target.id, self.qcount)
            vt = T(vname, INT)
        st2 = st.copy()
        st2.env[g.target.id] = mk_int(vt)
        saved = self.polarity
        if not skolemize:
            self.polarity = 0     # no skolemisation under a binder
        try:
            body = self.truthy(self.ev1(gen.elt, st2))
        finally:
            self.polarity = saved
        rng = smt.And(smt.Le(lo, vt), smt.Lt(vt, hi))
        if skolemize:
            return smt.Implies(rng, body) if kind == "all" else smt.And(rng, body)
        if kind == "all":
            inner = smt.Implies(rng, body)
            q = smt.Forall([(vname, INT)], inner)
            self.ctx.qreg[q.s] = (vname, inner.s, INT)
            self.ctx.qtag.setdefault(q.s, self.cur_clause)
            return q
        return smt.Exists([(vname, INT)], smt.And(rng, body))

    def call_spec(self, n, e, st, exc):
        sp = C.SPECS[n]
        out = []
        for s, pos, kw in self.eval_args(e, st, exc):
            args = [self.coerce(v, parse_type(t), s) for v, (_, t) in zip(pos, sp["params"])]
            if sp.get("macro"):
                # expanded in place: sees the heap of the state it is evaluated in
                ms = s.copy()
                ms.env = dict(self.ghost_env(s))
                for (pn, _), a in zip(sp["params"], args):
                    ms.env[pn] = a
                v = self.ev1(ast.parse(sp["body"], mode="eval").body, ms)
                for t in ms.pc[len(s.pc):]:
                    s.assume(t)
                out.append((s, self.coerce(v, parse_type(sp["ret"]), s)))
            else:
                out.append((s, self.spec_app(n, args, s)))
        return out

    def spec_app(self, n, args, st=None):
        sp = C.SPECS[n]
        self.define_spec(n)
        rty = parse_type(sp["ret"])
        flat = [t for a in args for t in a.ts]
        for f in sp.get("heap", ()):
            flat += self.heap_arr(st, f).ts if st is not None else []
        sorts = flatten(rty)
        if len(sorts) == 1:
            return SV(rty, [smt.app("spec_" + n, sorts[0], *flat)])
        return SV(rty, [smt.app("spec_%s_%d" % (n, k), s, *flat) for k, s in enumerate(sorts)])

    def define_spec(self, n):
        if n in self.defined_specs:
            return
        self.defined_specs.add(n)
        sp = C.SPECS[n]
        if sp["body"] is None:
            argsorts = [s for _, pt in sp["params"] for s in flatten(parse_type(pt))]
            sorts = flatten(parse_type(sp["ret"]))
            if len(sorts) == 1:
                self.ctx.fun("spec_" + n, argsorts, sorts[0])
            else:
                for k, s in enumerate(sorts):
                    self.ctx.fun("spec_%s_%d" % (n, k), argsorts, s)
            return
        st = State()
        params = []
        for pn, pt in sp["params"]:
            ty = parse_type(pt)
            ts = [T("%s_%d" % (pn, k) if len(flatten(ty)) > 1 else pn, s) for k, s in enumerate(flatten(ty))]
            st.env[pn] = SV(ty, ts)
            params += [(t.s, t.sort) for t in ts]
        for f in sp.get("heap", ()):
            fty = self.field_type(f)
            arrs = [T("Hp_%s_%d" % (f, k), smt.arr(INT, srt)) for k, srt in enumerate(flatten(fty))]
            st.heap[f] = SV(fty, arrs)
            params += [(a.s, a.sort) for a in arrs]
        self.spec_heap_params = {f: st.heap[f] for f in sp.get("heap", ())}
        rty = parse_type(sp["ret"])
        body = self.coerce(self.ev1(ast.parse(sp["body"], mode="eval").body, st), rty, st)
        self.spec_heap_params = None
        if st.pc:
            raise Unsupported("spec function %s generated side conditions" % n)
        sorts = flatten(rty)
        if len(sorts) == 1:
            self.ctx.define("spec_" + n, params, sorts[0], body.ts[0].s, rec=sp["rec"])
        else:
            for k, s in enumerate(sorts):
                self.ctx.define("spec_%s_%d" % (n, k), params, s, body.ts[k].s, rec=sp["rec"])

    # -------------------------------------------------------------- directives
    def call_directive(self, directive, e, st, exc, src):
        out = []
        if directive in C.CONTRACTS:
            con = C.CONTRACTS[directive]
            recv = []
            if isinstance(e.func, ast.Attribute) and con.types and list(con.types)[0] in ("self", "cls"):
                for s, r in self.ev(e.func.value, st, exc):
                    if r.ty.kind == "opt":
                        # calling a method on None raises AttributeError
                        self.require_noexc(s, smt.Not(r.ts[0]), "AttributeError", "call_%s_on_none" % e.func.attr, exc)
                        if s.infeasible():
                            continue
                        r = opt_inner(r)
                    for s2, pos, kw in self.eval_args(e, s, exc):
                        args = pos if r.ty.kind == "cls" else [r] + pos     # Class.method(self, ...) is unbound
                        out += self.apply_contract(con, args, kw, s2, exc, site=src)
                return out
            for s, pos, kw in self.eval_args(e, st, exc):
                if isinstance(e.func, ast.Name) and list(con.types)[:1] == ["cls"]:
                    pos = [s.env[e.func.id] if e.func.id in s.env else self.cls_sv(e.func.id)] + pos
                out += self.apply_contract(con, pos, kw, s, exc, site=src, arg_asts=e.args)
            return out
        mode = directive.split(":")
        if mode[0] in ("noraise", "ignore") and isinstance(e.func, ast.Attribute) and isinstance(e.func.value, ast.Attribute):
            # the receiver chain is not evaluated: the whole call is abstracted
            out = []
            for s, pos, kw in self.eval_args(e, st, exc):
                self.note("call %s abstracted as a total function (receiver not evaluated)" % src)
                rty = parse_type(mode[1]) if len(mode) > 1 else TANY
                out.append((s, NONE if rty.kind == "none" else self.opaque("call_" + re.sub(r"\W", "_", src), pos)))
            return out
        if mode[0] == "inline":
            fnode = extract.find(directive[len("inline:"):]).node
            out = []
            for s, pos, kw in self.eval_args(e, st, exc):
                args = list(pos)
                if isinstance(e.func, ast.Attribute) and fnode.args.args and fnode.args.args[0].arg in ("self", "cls"):
                    for s2, r in self.ev(e.func.value, s, exc):
                        out += self.inline(fnode, [r] + args, kw, s2, exc)
                else:
                    out += self.inline(fnode, args, kw, s, exc)
            return out
        for s, pos, kw in self.eval_args(e, st, exc):
            args = list(pos) + list(kw.values())
            if isinstance(e.func, ast.Attribute) and static_name(e.func.value) is None or (
                    isinstance(e.func, ast.Attribute) and static_name(e.func).split(".")[0] in s.env):
                rs = self.ev(e.func.value, s, exc)
                if len(rs) == 1:
                    s, r = rs[0]
                    args = [r] + args
            name = re.sub(r"\W", "_", src)
            if mode[0] in ("pure", "opaque", "noraise"):
                rty = parse_type(mode[1]) if len(mode) > 1 else TANY
                if mode[0] == "opaque" and (self.contract.opaque_raise or "raises" in mode):
                    bad = s.copy()
                    exc.append(Outcome("raise", bad, self.exc_symbolic(bad, "Exception", "opq")))
                if rty.kind == "any":
                    v = self.opaque("call_" + name, args)
                else:
                    ts = [self.uf("call_%s_%d" % (name, k), [self.to_u(a) for a in args], srt) for k, srt in enumerate(flatten(rty))]
                    v = SV(rty, ts)
                    for t in self.wf(v):
                        s.assume(t)
                self.note("call %s treated as %s uninterpreted function" % (src, mode[0]))
                out.append((s, v))
            elif mode[0] == "ignore":
                out.append((s, NONE))
            else:
                raise Unsupported("call directive %r" % directive)
        return out

    # --------------------------------------------------------------- by name
    def call_name(self, n, e, st, exc):
        if n in self.modpatterns and n not in st.env:
            out = []
            for s, pos, kw in self.eval_args(e, st, exc):
                out += self.call_value(self.regex_sv(n, self.modpatterns[n]), e, s, exc, n, pos, kw)
            return out
        if n in st.env:
            out = []
            for s, pos, kw in self.eval_args(e, st, exc):
                out += self.call_value(st.env[n], e, s, exc, n, pos, kw)
            return out
        if n in ("all", "any") and len(e.args) == 1 and isinstance(e.args[0], ast.GeneratorExp):
            self.note("all()/any() over a generator abstracted at L%d" % self.relline)
            return [(st, mk_bool(self.truthy(self.opaque("%s_L%d" % (n, self.relline)))))]
        m = getattr(self, "bi_" + n, None)
        if m is not None:
            out = []
            for s, pos, kw in self.eval_args(e, st, exc):
                r = m(pos, kw, s, exc, e)
                out += r if isinstance(r, list) else [(s, r)]
            return out
        if n in STR_TAGS_ALL:
            out = []
            for s, pos, kw in self.eval_args(e, st, exc):
                v = self.coerce(pos[0], TSTR, s)
                out.append((s, mk_tstr(v.t, STR_TAGS[n])))
            return out
        if n in self.bases or n in self.modclasses or n in C.CLASSES:
            out = []
            for s, pos, kw in self.eval_args(e, st, exc):
                out += self.construct(n, pos, kw, s, exc)
            return out
        con = self.find_function(n)
        if con is not None:
            out = []
            for s, pos, kw in self.eval_args(e, st, exc):
                out += self.apply_contract(con, pos, kw, s, exc, site=n)
            return out
        if n in self.modfuncs:
            raise Unsupported("call to %s() which has no contract (declare one, or a calls= directive)" % n)
        self.note("opaque call %s()" % n)
        return [(s, self.opaque("call_" + n, pos + list(kw.values()))) for s, pos, kw in self.eval_args(e, st, exc)]

    def find_function(self, n):
        fid = "%s:%s" % (self.found.mod, n)
        if fid in C.CONTRACTS:
            return C.CONTRACTS[fid]
        cands = [c for k, c in C.CONTRACTS.items() if ":" in k and k.split(":")[1] == n]
        if len(cands) == 1:
            return cands[0]
        return None

    def find_method(self, cls, name, want_property=False, args=None):
        """contract of cls.name (searching the bases); among variants (id@variant) the first whose
        declared parameter types fit the argument kinds is chosen"""
        if cls is None:
            return None
        for k in self.mro(cls):
            cands = [c for fid, c in C.CONTRACTS.items()
                     if ":" in fid and fid.split(":")[1].split("@")[0] == "%s.%s" % (k, name)]
            if not cands:
                continue
            if want_property and not cands[0].prop:
                return None
            if len(cands) == 1 or args is None:
                return cands[0]
            for c in cands:
                if self.variant_fits(c, args):
                    return c
            return cands[0]
        return None

    def variant_fits(self, con, args):
        params = [p for p, _ in self.callee_params(con)]
        for p, a in zip(params, args):
            decl = con.types.get(p)
            if decl is None or a.ty.kind == "none":
                continue
            d = parse_type(decl)
            ak = a.ty.args[0].kind if a.ty.kind == "opt" else a.ty.kind
            dk = d.args[0].kind if d.kind == "opt" else d.kind
            if dk == "any":
                continue
            if dk == "str" and ak not in ("str", "tstr"):
                return False
            if dk == "ref" and ak not in ("ref", "excobj"):
                return False
            if dk in ("int", "bool") and ak not in ("int", "bool"):
                return False
        return True

    def is_static(self, con):
        try:
            node = extract.find(con.id).node
        except (KeyError, OSError):
            return False
        return any(isinstance(d, ast.Name) and d.id == "staticmethod" for d in node.decorator_list)

    def property_node(self, cls, attr, setter=False):
        """FunctionDef of a @property (or its setter) named attr in the (declared) class or its bases"""
        if cls is None:
            return None
        for k in self.mro(cls):
            d = C.CLASSES.get(k)
            node = None
            if d and d.get("module"):
                node = extract.module_classes(extract.module_ast(d["module"])).get(k)
            elif k in self.modclasses:
                node = self.modclasses[k]
            if node is None:
                continue
            for n in node.body:
                if isinstance(n, ast.FunctionDef) and n.name == attr:
                    if not setter and any(isinstance(dd, ast.Name) and dd.id == "property" for dd in n.decorator_list):
                        return n
                    if setter and any(isinstance(dd, ast.Attribute) and dd.attr == "setter" for dd in n.decorator_list):
                        return n
        return None

    def call_value(self, fv, e, st, exc, src, pos=None, kw=None):
        if pos is None:
            res = self.eval_args(e, st, exc)
        else:
            res = [(st, pos, kw)]
        out = []
        for s, pos, kw in res:
            if fv.ty.kind == "func" and isinstance(fv.py, tuple) and fv.py[0] == "closure":
                out += self.inline(fv.py[1], pos, kw, s, exc, closure=True)
            elif fv.ty.kind == "func" and isinstance(fv.py, tuple) and fv.py[0] == "lambda":
                lam = fv.py[1]
                s2 = s.copy()
                for a, v in zip(lam.args.args, pos):
                    s2.env[a.arg] = v
                for s3, v in self.ev(lam.body, s2, exc):
                    s3.env = {k2: v2 for k2, v2 in s3.env.items() if k2 in s.env}
                    out.append((s3, v))
            elif fv.ty.kind == "func" and isinstance(fv.py, tuple) and fv.py[0] == "boundm":
                out += self.method(fv.py[1], None, fv.py[2], pos, kw, s, exc, e)
            elif fv.ty.kind == "func" and isinstance(fv.py, tuple) and fv.py[0] == "bound":
                out += self.call_method_on(fv.py[1], fv.py[2], pos, kw, s, exc, e)
            elif fv.ty.kind == "cls":
                out += self.rule_call(fv, pos, kw, s, exc, src)
            elif fv.ty.kind == "regex":
                if fv.py[2] is None:
                    raise Unsupported("calling a pattern object")
                out.append((s, self.regex_call(fv, fv.py[2], pos, s, exc)))
            elif fv.ty.kind == "func" and isinstance(fv.py, str):
                fake = ast.Call(func=ast.Name(id=fv.py, ctx=ast.Load()), args=[], keywords=[])
                con = self.find_function(fv.py)
                if con is not None:
                    out += self.apply_contract(con, pos, kw, s, exc, site=src)
                else:
                    raise Unsupported("call through function value %s" % fv.py)
            elif fv.ty.kind == "none":
                self.require_noexc(s, smt.FALSE, "TypeError", "call_of_none", exc)      # 'NoneType' object is not callable
            else:
                out += self.opaque_call(src, [fv] + pos + list(kw.values()), s, exc)
        return out

    def opaque_call(self, src, args, st, exc):
        name = re.sub(r"\W", "_", src)
        self.note("opaque call %s" % src)
        if self.contract.opaque_raise and not self.spec_mode:
            bad = st.copy()
            exc.append(Outcome("raise", bad, self.exc_symbolic(bad, "Exception", "opq")))
        return [(st, self.opaque("call_" + name, args))]

    def rule_call(self, clsv, pos, kw, st, exc, src):
        """call through a class-valued variable; uses the protocol contract if declared"""
        proto = self.contract.calls.get("<class-call>")
        if proto is None:
            return self.opaque_call(src, [clsv] + pos, st, exc)
        con = C.CONTRACTS[proto]
        return self.apply_contract(con, [clsv] + pos, kw, st, exc, site=src)

    # ----------------------------------------------------------- attribute call
    def call_attr(self, f, e, st, exc):
        sn = static_name(f)
        src = ast.unparse(f)
        root = sn.split(".")[0] if sn else None
        if root == "result" and self.result_sv is not None and self.spec_mode:
            sn, root = None, None        # `result` of a postcondition, not a module
        if sn == "object.__new__" and "object" not in st.env:
            out = []
            for s, pos, kw in self.eval_args(e, st, exc):
                clsv = pos[0]
                r = self.new_ref(s, "new_obj")
                s.assume(smt.Eq(self.typeof(r), clsv.ts[0]))
                out.append((s, SV(Ref(clsv.py if isinstance(clsv.py, str) else None), [r])))
            return out
        if sn and root not in st.env and root in self.modpatterns and sn.count(".") == 1:
            out = []
            for s, pos, kw in self.eval_args(e, st, exc):
                out.append((s, self.regex_call(self.regex_sv(root, None), f.attr, pos, s, exc)))
            return out
        if sn and root not in st.env and root not in self.contract.bind:
            # module-level function such as os.path.exists, logging.getLogger(...)
            if sn.startswith("logging.") or sn.startswith("traceback."):
                self.note("logging/traceback call dropped: %s" % sn)
                return [(s, self.opaque("log")) for s, pos, kw in self.eval_args(e, st, exc)]
            if sn == "sys.exit":
                out = []
                for s, pos, kw in self.eval_args(e, st, exc):
                    exc.append(Outcome("raise", s, Exc("SystemExit")))
                return out
            last = sn.split(".")[-1]
            con = self.find_function(last) if root in ("di", "DynamicImport") else None
            if con is not None:
                out = []
                for s, pos, kw in self.eval_args(e, st, exc):
                    out += self.apply_contract(con, pos, kw, s, exc, site=sn, arg_asts=e.args)
                return out
            if "." in sn and sn.rsplit(".", 1)[0].split(".")[-1] in C.CLASSES:
                # Class.method(...) static call
                cname = sn.rsplit(".", 1)[0].split(".")[-1]
                con = self.find_method(cname, last)
                if con is not None:
                    out = []
                    for s, pos, kw in self.eval_args(e, st, exc):
                        out += self.apply_contract(con, pos, kw, s, exc, site=sn)
                    return out
            out = []
            for s, pos, kw in self.eval_args(e, st, exc):
                out += self.opaque_call(sn, pos + list(kw.values()), s, exc)
            return out
        if isinstance(f.value, ast.Call) and isinstance(f.value.func, ast.Name) and f.value.func.id == "super":
            return self.call_super(f.attr, e, st, exc)
        out = []
        for s, pos, kw in self.eval_args(e, st, exc):
            out += self.call_method_on(f.value, f.attr, pos, kw, s, exc, e)
        return out

    def call_super(self, name, e, st, exc):
        out = []
        for s, pos, kw in self.eval_args(e, st, exc):
            if name == "__new__":
                clsv = pos[0]
                r = self.new_ref(s, "new_obj")
                s.assume(smt.Eq(self.typeof(r), clsv.ts[0]))
                out.append((s, SV(Ref(clsv.py if isinstance(clsv.py, str) else None), [r])))
                continue
            owner = self.found.cls_node.name if self.found.cls_node else None
            con = None
            for b in self.mro(owner)[1:] if owner else []:
                con = self.find_method(b, name)
                if con:
                    break
            if con is None:
                out += self.opaque_call("super().%s" % name, pos, s, exc)
            else:
                out += self.apply_contract(con, [s.env["self"]] + pos, kw, s, exc, site="super." + name)
        return out

    def call_method_on(self, recv_ast, name, pos, kw, st, exc, e):
        out = []
        for s, recv in self.ev(recv_ast, st, exc):
            out += self.method(recv, recv_ast, name, pos, kw, s, exc, e)
        return out

    def method(self, recv, recv_ast, name, pos, kw, st, exc, e):
        k = recv.ty.kind
        if k == "opt":
            self.require_noexc(st, smt.Not(recv.ts[0]), "AttributeError", "call_%s_on_none" % name, exc)
            recv = opt_inner(recv)
            k = recv.ty.kind
        if k in ("str", "tstr"):
            r = self.str_method(recv, name, pos, kw, st, exc)
            return r if isinstance(r, list) else [(st, r)]
        if k == "regex":
            return [(st, self.regex_call(recv, name, pos, st, exc))]
        if k in ("match", "optmatch"):
            return [(st, self.match_method(recv, name, pos, st, exc))]
        if k == "list":
            return self.list_method(recv, recv_ast, name, pos, kw, st, exc)
        if k == "dict":
            return self.dict_method(recv, recv_ast, name, pos, kw, st, exc)
        if k == "ref":
            con = self.find_method(recv.ty.cls, name) if ("*." + name) not in self.contract.calls else None
            if con is not None:
                args = pos if self.is_static(con) else [recv] + pos
                return self.apply_contract(con, args, kw, st, exc, site="%s.%s" % (recv.ty.cls, name))
            d = self.contract.calls.get("*." + name)
            if d is not None:
                fake = ast.Call(func=ast.Name(id="m_" + name, ctx=ast.Load()), args=[], keywords=[])
                if d in C.CONTRACTS:
                    return self.apply_contract(C.CONTRACTS[d], [recv] + pos, kw, st, exc, site="*." + name)
                mode = d.split(":")
                rty = parse_type(mode[1]) if len(mode) > 1 else TANY
                args = [recv] + pos + list(kw.values())
                if mode[0] == "opaque" and (self.contract.opaque_raise or "raises" in mode):
                    bad = st.copy()
                    exc.append(Outcome("raise", bad, self.exc_symbolic(bad, "Exception", "opq")))
                if rty.kind == "any":
                    return [(st, self.opaque("m_" + name, args))]
                if rty.kind == "none":
                    return [(st, NONE)]
                ts = [self.uf("m_%s_%d" % (name, i), [self.to_u(a) for a in args], srt) for i, srt in enumerate(flatten(rty))]
                v = SV(rty, ts)
                for t in self.wf(v):
                    st.assume(t)
                return [(st, v)]
            return self.opaque_call("%s.%s" % (recv.ty.cls or "obj", name), [recv] + pos + list(kw.values()), st, exc)
        if k == "cls":
            con = self.find_method(recv.py, name) if isinstance(recv.py, str) else None
            if con is not None:
                first = list(con.types)[:1]
                args = ([recv] if first and first[0] == "cls" else []) + pos
                return self.apply_contract(con, args, kw, st, exc, site="%s.%s" % (recv.py, name))
            d = self.contract.calls.get("cls." + name)
            if d is not None and d in C.CONTRACTS:
                return self.apply_contract(C.CONTRACTS[d], [recv] + pos, kw, st, exc, site="cls." + name)
            return self.opaque_call("cls.%s" % name, [recv] + pos + list(kw.values()), st, exc)
        if k == "any":
            return self.opaque_call("any.%s" % name, [recv] + pos + list(kw.values()), st, exc)
        raise Unsupported("method %s on %r" % (name, recv.ty))

    # ------------------------------------------------------------ constructors
    def construct(self, n, pos, kw, st, exc):
        if n in self.bases and self.is_subclass_name(n, "BaseException"):
            con = self.find_method(n, "__init__", args=[NONE] + list(pos))
            if con is not None:
                obj = self.alloc(st, n)
                res = self.apply_contract(con, [obj] + pos, kw, st, exc, site=n + ".__init__")
                return [(s, SV(Ty("excobj", (), n), obj.ts, py=n)) for s, _ in res]
            return [(st, SV(Ty("excobj", (), n), [smt.Int(0)], py=(n, pos)))]
        con = self.find_method(n, "__init__")
        obj = self.alloc(st, n)
        if con is None:
            self.note("constructor %s() without contract: fields unconstrained" % n)
            return [(st, obj)]
        res = self.apply_contract(con, [obj] + pos, kw, st, exc, site=n + ".__init__")
        return [(s, obj) for s, _ in res]

    # ------------------------------------------------------------ contracts
    def callee_params(self, con):
        """[(name, default_ast or None)] in order"""
        if con.id in self.param_cache:
            return self.param_cache[con.id]
        try:
            fn = extract.find(con.id).node
            a = fn.args
            names = [x.arg for x in a.posonlyargs + a.args]
            defaults = [None] * (len(names) - len(a.defaults)) + list(a.defaults)
            res = list(zip(names, defaults))
            for x, d in zip(a.kwonlyargs, a.kw_defaults):
                res.append((x.arg, d))
        except (KeyError, OSError):
            res = [(n, None) for n in con.types]
        self.param_cache[con.id] = res
        return res

    def bind_params(self, con, pos, kw, st):
        params = self.callee_params(con)
        env = {}
        pos = list(pos)
        for (name, dflt) in params:
            if pos:
                v = pos.pop(0)
            elif name in kw:
                v = kw[name]
            elif name in con.defaults:
                v = self.const_sv(con.defaults[name])
            elif dflt is not None:
                try:
                    v = self.const_sv(ast.literal_eval(dflt))
                except Exception:
                    raise Unsupported("non-literal default for %s of %s" % (name, con.id))
            else:
                raise Unsupported("missing argument %s for %s" % (name, con.id))
            if name in con.types:
                v = self.coerce(v, parse_type(con.types[name]), st, " (arg %s of %s)" % (name, con.id))
            env[name] = v
        return env

    def ghost_env(self, st):
        return {g: st.env[g] for g in C.GHOSTS if g in st.env}

    def havoc_modifies(self, con, st, penv):
        for m in con.modifies:
            if m in C.GHOSTS:
                if m not in st.env:
                    self.ghost_entry(m, st)
                st.env[m] = self.fresh_sv(parse_type(C.GHOSTS[m]), "g_" + m, st)
            elif m.startswith("*."):
                self.heap_havoc(st, m[2:])
            elif "." in m:
                p, f = m.split(".", 1)
                obj = penv[p] if p in penv else self.global_value(p, st)
                if obj.ty.kind == "opt":
                    obj = opt_inner(obj)
                self.heap_havoc(st, f, at=obj.ts[0])
            else:
                raise Unsupported("modifies entry %r" % m)

    def goal_term(self, expr, env, st, old=None, result=None):
        """clause as a proof goal: universal quantifiers become fresh constants"""
        self.goal_mode = True
        self.skolems = []
        try:
            t = self.clause_term(expr, env, st, old, result)
        finally:
            self.goal_mode = False
        sk, self.skolems = self.skolems, []
        return t, sk

    def clause_term(self, expr, env, st, old=None, result=None):
        cst = st.copy()
        cst.env = dict(env)
        cst.env.update(self.ghost_env(st))
        saved = (self.old_state, self.result_sv, self.polarity)
        self.old_state, self.result_sv, self.polarity = old, result, 1
        try:
            tree = expr if isinstance(expr, ast.AST) else ast.parse(expr, mode="eval").body
            v = self.ev1(tree, cst)
        finally:
            self.old_state, self.result_sv, self.polarity = saved
        if cst.pc[len(st.pc):]:
            # facts introduced while evaluating the clause (e.g. strip() models) hold unconditionally
            for t in cst.pc[len(st.pc):]:
                st.assume(t)
        return self.truthy(v)

    def apply_contract(self, con, pos, kw, st, exc, site="", arg_asts=None):
        penv = self.bind_params(con, pos, kw, st)
        if not con.pure:
            st.calls += 1
        mut_targets = {}
        if con.mutates:
            names = [p for p, _ in self.callee_params(con)]
            for m in con.mutates:
                k = names.index(m)
                if arg_asts is None or k >= len(arg_asts) or not isinstance(arg_asts[k], (ast.Name, ast.Attribute)):
                    raise Unsupported("argument for in-place parameter %s of %s must be a variable" % (m, con.id))
                mut_targets[m] = arg_asts[k]
        self.callsites[site] = self.callsites.get(site, 0) + 1
        tag = "%s@%s" % (con.id.split(":")[1], site)
        if not self.spec_mode:
            for name, expr in con.requires.items():
                g, sk = self.goal_term(expr, penv, st)
                self.oblige(st, g, "%s#call.%s.requires.%s" % (self.short, tag, name), "requires", self.curline, expr, sk)
        old = st.copy()
        old.env = dict(penv)
        old.env.update(self.ghost_env(st))
        rty = parse_type(con.returns) if con.returns else TNONE
        # exceptional outcomes
        if not self.spec_mode:
            for ename, posts in con.raises.items():
                bad = st.copy()
                self.havoc_modifies(con, bad, penv)
                base_name, excluded = ename.split("!")[0], ename.split("!")[1:]
                if base_name in ("*", "BaseException", "Exception") or base_name not in self.bases:
                    for x in excluded:
                        if x in self.bases and x not in self.relevant_exceptions():
                            self._relevant_exc = None
                            self.callee_exc_names.add(x)
                    ex = self.exc_symbolic(bad, "BaseException" if base_name == "BaseException" else "Exception", "callee")
                    for x in excluded:          # "*!NoMatchError": any exception that is not a NoMatchError
                        bad.assume(smt.Not(self.issub_term(ex.cls_term, x)))
                else:
                    ex = Exc(ename)
                for name, expr in posts.items():
                    bad.assume(self.clause_term(expr, penv, bad, old=old))
                if not bad.infeasible():
                    exc.append(Outcome("raise", bad, ex))
        self.havoc_modifies(con, st, penv)
        if mut_targets:
            penv = dict(penv)
            for m, tgt in mut_targets.items():
                penv[m] = self.fresh_sv(penv[m].ty, "mut_" + m, st)
                self.assign_to(tgt, penv[m], st, exc)
        if rty.kind == "none":
            res = NONE
        elif con.pure and not con.modifies:
            flat = [t for v in penv.values() for t in v.ts]
            res = SV(rty, [self.pure_app(con, k, flat, s) for k, s in enumerate(flatten(rty))])
            for t in self.wf(res):
                st.assume(t)
        else:
            res = self.fresh_sv(rty, "ret_" + con.id.split(":")[1].replace(".", "_"), st)
        for name, expr in con.ensures.items():
            if name in con.not_assumed:
                continue
            st.assume(self.clause_term(expr, penv, st, old=old, result=res))
        if con.trusted:
            self.assumptions_used.add("trusted contract: %s" % con.id)
        self.callees.add(con.id)
        return [(st, res)]

    def pure_app(self, con, k, flat, sort):
        name = "fn_%s_%d" % (re.sub(r"\W", "_", con.id.split(":")[1]), k)
        self.ctx.fun(name, [t.sort for t in flat], sort)
        return smt.app(name, sort, *flat) if flat else T(name, sort)

    # ------------------------------------------------------------- inlining
    def inline(self, fnode, pos, kw, st, exc, closure=False):
        names = [a.arg for a in fnode.args.args]
        defaults = [None] * (len(names) - len(fnode.args.defaults)) + list(fnode.args.defaults)
        saved_env = st.env
        env = dict(st.env) if closure else {}
        pos = list(pos)
        for n, d in zip(names, defaults):
            if pos:
                env[n] = pos.pop(0)
            elif n in kw:
                env[n] = kw[n]
            elif d is not None:
                env[n] = self.const_sv(ast.literal_eval(d))
            else:
                raise Unsupported("missing arg %s in inlined call" % n)
        st = st.copy()
        st.env = env
        self.inline_depth += 1
        if self.inline_depth > 6:
            raise Unsupported("inline depth")
        try:
            outs = self.exec_block(fnode.body, st)
        finally:
            self.inline_depth -= 1
        res = []
        for o in outs:
            s = o.st
            outer = dict(saved_env)
            if closure:
                # writes to enclosing variables are not supported (nonlocal); keep caller bindings
                pass
            for g in C.GHOSTS:
                if g in s.env:
                    outer[g] = s.env[g]
            s.env = outer
            if o.kind == "return":
                res.append((s, o.val if o.val is not None else NONE))
            elif o.kind == "normal":
                res.append((s, NONE))
            elif o.kind == "raise":
                exc.append(o)
            else:
                raise Unsupported("break/continue escaping an inlined function")
        return res


def _sexpr_args(text):
    """'(op a b ...)' -> (op, [a, b, ...]) splitting at the top level (string literals and nested parentheses kept whole)"""
    if not (text.startswith("(") and text.endswith(")")):
        return None
    body = text[1:-1]
    out, depth, cur, i, instr = [], 0, "", 0, False
    while i < len(body):
        ch = body[i]
        if instr:
            cur += ch
            if ch == '"':
                if i + 1 < len(body) and body[i + 1] == '"':
                    cur += '"'
                    i += 1
                else:
                    instr = False
        elif ch == '"':
            instr = True
            cur += ch
        elif ch == "(":
            depth += 1
            cur += ch
        elif ch == ")":
            depth -= 1
            cur += ch
        elif ch.isspace() and depth == 0:
            if cur:
                out.append(cur)
                cur = ""
        else:
            cur += ch
        i += 1
    if cur:
        out.append(cur)
    if not out:
        return None
    return out[0], out[1:]


def _unit_items(text):
    """'(seq.++ (seq.unit a) (seq.unit b) ...)' or '(seq.unit a)' -> [a, b, ...]"""
    p = _sexpr_args(text)
    if p is None:
        return None
    op, args = p
    if op == "seq.unit" and len(args) == 1:
        return [args[0]]
    if op == "seq.++":
        out = []
        for a in args:
            sub = _unit_items(a)
            if sub is None:
                return None
            out += sub
        return out
    return None
