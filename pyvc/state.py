"""Execution state, outcomes and obligations of the symbolic executor."""
from . import smt


class State:
    __slots__ = ("env", "heap", "pc", "cur_exc", "handlers", "notes", "allocated", "calls", "snaps")

    def __init__(self):
        self.env = {}
        self.heap = {}        # field name -> SV of array sorts
        self.pc = []
        self.cur_exc = None
        self.handlers = ()    # tuple of frozensets of exception names expected by enclosing try
        self.notes = ()
        self.allocated = ()
        self.calls = 0
        self.snaps = {}       # label -> State recorded at a snapshot site (never mutated after recording)

    def copy(self):
        s = State()
        s.env = dict(self.env)
        s.heap = dict(self.heap)
        s.pc = list(self.pc)
        s.cur_exc = self.cur_exc
        s.handlers = self.handlers
        s.notes = self.notes
        s.allocated = self.allocated
        s.calls = self.calls
        s.snaps = self.snaps
        return s

    def assume(self, t):
        if t.s != "true":
            self.pc.append(t)
        return self

    def infeasible(self):
        return any(t.s == "false" for t in self.pc)


class Exc:
    """exception value: known class name, or symbolic class id term"""
    __slots__ = ("name", "cls_term", "payload")

    def __init__(self, name=None, cls_term=None, payload=None):
        self.name = name
        self.cls_term = cls_term
        self.payload = payload

    def __repr__(self):
        return "Exc(%s)" % (self.name or self.cls_term.s)


class Outcome:
    __slots__ = ("kind", "st", "val", "site")

    def __init__(self, kind, st, val=None, site=None):
        self.kind = kind      # normal | return | raise | break | continue
        self.st = st
        self.val = val
        self.site = site      # for 'return': ordinal of the return statement

    def __repr__(self):
        return "Outcome(%s)" % self.kind


class Obligation:
    __slots__ = ("oid", "kind", "pc", "goal", "line", "text", "path", "skolems")

    def __init__(self, oid, kind, pc, goal, line, text=""):
        self.oid = oid
        self.kind = kind
        self.pc = list(pc)
        self.goal = goal
        self.line = line
        self.text = text
        self.path = 0
        self.skolems = []
