"""Discharge obligations with the solver portfolio, in parallel."""
import os
import time
from concurrent.futures import ThreadPoolExecutor
from . import smt, solve


def relevant(eng, ob):
    """hypotheses connected to the goal through shared constants, ignoring hub symbols
    (dropping hypotheses only weakens them: 'unsat' remains a proof)"""
    import collections
    consts = {n for n, (txt, _) in eng.ctx.decls.items() if txt.startswith("(declare-fun %s () " % n)}
    facts = list(ob.pc)
    syms = [smt.symbols(f.s) & consts for f in facts]
    freq = collections.Counter(s for ss in syms for s in ss)
    limit = max(10, len(facts) // 4)
    hubs = {s for s, c in freq.items() if c > limit}
    work = (smt.symbols(ob.goal.s) & consts) - hubs
    if not work:
        work = smt.symbols(ob.goal.s) & consts
    keep = [False] * len(facts)
    changed = True
    while changed:
        changed = False
        for i, f in enumerate(facts):
            if keep[i]:
                continue
            core = syms[i] - hubs
            if (core & work) or (not core and len(f.s) < 200):
                keep[i] = True
                new = core - work
                if new:
                    work |= new
                    changed = True
    return [f for f, k in zip(facts, keep) if k]


def script_for(eng, ob, get_values=(), keep_quantifiers=True, extra_terms=True, focused=False, sliced=False, unfold=False):
    asserts = (relevant(eng, ob) if sliced else list(ob.pc)) + [smt.Not(ob.goal)]
    tag = None
    if focused:
        # keep only the invariants that the clause being proved needs: by default the invariant of the same
        # name, or the ones named in the contract's hints (dropping hypotheses keeps 'unsat' a proof)
        parts = ob.oid.split("#", 1)[1].split("@")[0].split(".")
        clause = parts[1] if len(parts) > 1 else parts[0]
        keep = set(eng.contract.hints.get(clause, [clause])) | {"bounds", "pos"}
        asserts = [a for a in asserts[:-1] if eng.ctx.fact_tag.get(a.s) is None or eng.ctx.fact_tag[a.s] in keep] + [asserts[-1]]
        tag = parts[1] if parts[0].startswith("loop") else None
    txt = eng.ctx.script(asserts, get_values=get_values, inst_terms=list(ob.skolems),
                         keep_quantifiers=keep_quantifiers, extra_terms=extra_terms, only_tag=tag, unfold=unfold)
    if get_values:
        txt = "(set-option :produce-models true)\n" + txt
    return txt


def discharge(eng, obligations, timeout_s=10, jobs=None, solvers=None):
    """-> list of dict(ob, status, solver, seconds, per_solver, output)"""
    jobs = jobs or int(os.environ.get("VERIF_JOBS", "16"))
    tmpdir = os.environ.get("VERIF_TMP") or None

    def one(ob):
        # first attempt: universally quantified hypotheses replaced by their instances at the goal's
        # skolem constants (a weaker, quantifier-free set of hypotheses: 'unsat' is still a proof,
        # 'sat' is not a refutation)
        stages = []
        for kw in (dict(keep_quantifiers=False, extra_terms=False, sliced=True, unfold=True),
                   dict(keep_quantifiers=False, extra_terms=False, unfold=True),
                   dict(keep_quantifiers=False, extra_terms=False, sliced=True),
                   dict(keep_quantifiers=False, extra_terms=False, focused=True),
                   dict(keep_quantifiers=False, extra_terms=False, focused=True, unfold=True),
                   dict(keep_quantifiers=False, extra_terms=False), dict(keep_quantifiers=False, extra_terms=True),
                   dict(keep_quantifiers=True, extra_terms=True)):
            txt = script_for(eng, ob, **kw)
            if txt not in stages:
                stages.append(txt)
        weak_txt = script_for(eng, ob, keep_quantifiers=False, extra_terms=True, unfold=True)
        if weak_txt not in stages:
            stages.insert(min(2, len(stages)), weak_txt)
        secs = 0.0
        weak = None
        for k, txt in enumerate(stages):
            r = solve.solve(txt, timeout_s=timeout_s if k == len(stages) - 1 else min(timeout_s, 15), solvers=solvers, tmpdir=tmpdir)
            secs += r.seconds
            if txt == weak_txt and r.status == "sat":
                weak = r
            # a model of weakened hypotheses is not a counterexample: only the last (full) stage may refute
            if r.status == "unsat" or k == len(stages) - 1:
                break
        r.seconds = secs
        status = {"unsat": "proved", "sat": "refuted"}.get(r.status, "undecided")
        out = dict(ob=ob, status=status, solver=r.solver, seconds=r.seconds, per_solver=r.per_solver, output=r.output)
        if status == "undecided" and weak is not None:
            # all hypotheses kept, quantified ones instantiated at the goal's terms, recursive specs
            # unfolded at the terms that occur: satisfiable, with a model
            out["weak_sat"] = True
            out["weak_output"] = weak.output
            out["weak_solver"] = weak.solver
        return out

    # each query starts up to 3 solver processes
    with ThreadPoolExecutor(max_workers=max(1, jobs // 2)) as ex:
        return list(ex.map(one, obligations))
