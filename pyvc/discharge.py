"""Discharge obligations with the solver portfolio, in parallel."""
import os
import time
from concurrent.futures import ThreadPoolExecutor
from . import smt, solve


def script_for(eng, ob, get_values=(), keep_quantifiers=True):
    asserts = list(ob.pc) + [smt.Not(ob.goal)]
    txt = eng.ctx.script(asserts, get_values=get_values, inst_terms=[t.s for t in ob.skolems],
                         keep_quantifiers=keep_quantifiers)
    if get_values:
        txt = "(set-option :produce-models true)\n" + txt
    return txt


def discharge(eng, obligations, timeout_s=10, jobs=None, solvers=None):
    """-> list of dict(ob, status, solver, seconds, per_solver, output)"""
    jobs = jobs or int(os.environ.get("VERIF_JOBS", "16"))
    tmpdir = os.environ.get("VERIF_TMP") or None

    def one(ob):
        # first attempt: universally quantified hypotheses replaced by their instances at the goal's
        # skolem constants (a weaker, quantifier-free set of hypotheses: 'unsat' is still a proof,
        # 'sat' is not a refutation)
        qf = script_for(eng, ob, keep_quantifiers=False)
        full = script_for(eng, ob)
        r = solve.solve(qf, timeout_s=timeout_s, solvers=solvers, tmpdir=tmpdir)
        if r.status != "unsat" and qf != full:
            r2 = solve.solve(full, timeout_s=timeout_s, solvers=solvers, tmpdir=tmpdir)
            r2.seconds += r.seconds
            r = r2
        status = {"unsat": "proved", "sat": "refuted"}.get(r.status, "undecided")
        return dict(ob=ob, status=status, solver=r.solver, seconds=r.seconds, per_solver=r.per_solver, output=r.output)

    # each query starts up to 3 solver processes
    with ThreadPoolExecutor(max_workers=max(1, jobs // 2)) as ex:
        return list(ex.map(one, obligations))
