"""The verifier: generate obligations for one function under contract."""
import ast
import time
import traceback
from . import smt
from .smt import T, INT, BOOL, STR, U
from .values import *  # noqa
from .values import SV, Ty, Unsupported
from .state import State, Exc, Outcome, Obligation
from . import contracts as C
from . import extract
from .engine_core import CoreMixin
from .engine_expr import ExprMixin
from .engine_call import CallMixin
from .engine_lib import LibMixin
from .engine_stmt import StmtMixin
from .engine_re import ReMixin

LIST_METHODS = ("append", "appendleft", "pop", "popleft", "insert", "reverse", "extend")


class Engine(CoreMixin, ExprMixin, CallMixin, LibMixin, StmtMixin, ReMixin):
    def __init__(self, contract):
        self.contract = contract
        self.init_core()
        self.found = extract.find(contract.id)
        self.renamed = None
        self.recover_renaming()
        self.short = contract.id.split(".", 1)[1] if contract.id.startswith("fparser.") else contract.id
        self.first_line = self.found.node.lineno
        self.curline = self.first_line
        self.modconsts = extract.module_constants(self.found.tree)
        self.modclasses = extract.module_classes(self.found.tree)
        self.modfuncs = extract.module_functions(self.found.tree)
        for name, node in self.modclasses.items():
            if name not in self.bases:
                self.bases[name] = tuple(b.id if isinstance(b, ast.Name) else getattr(b, "attr", "object") for b in node.bases)
        self.trivial = 0
        self.re_cache = {}
        self.spec_heap_params = None
        self.scan_module_patterns()
        self.qcount = 0
        self.result_sv = None
        self.entry_state = None
        self.defined_specs = set()
        self.param_cache = {}
        self.callsites = {}
        self.callees = set()
        self.assumptions_used = set()
        self.strip_cache = {}
        self.lemmas_used = set()
        self.callee_exc_names = set()
        self._relevant_exc = None
        self.inline_depth = 0
        self.bound_aliases = {}
        self.loop_ordinals = {}
        k = 0
        for n in self.walk_own(self.found.node):
            if isinstance(n, (ast.While, ast.For)):
                self.loop_ordinals[id(n)] = k
                k += 1
        self.n_loops = k
        self.return_ordinals = {}
        for n in self.walk_own(self.found.node):
            if isinstance(n, ast.Return) and id(n) not in self.return_ordinals:
                self.return_ordinals[id(n)] = len(self.return_ordinals)
        self.paths = 0
        self.exits = {"return": 0, "raise": 0}

    def walk_own(self, fn):
        """AST nodes of the function in source order (nested defs included: they are inlined)"""
        todo = list(reversed(fn.body))
        while todo:
            n = todo.pop()
            yield n
            todo.extend(reversed(list(ast.iter_child_nodes(n))))

    # bound method values for lists (lines_append = lines.append)
    def ev_Attribute(self, e, st, exc):
        if e.attr in LIST_METHODS and isinstance(e.ctx, ast.Load):
            sn = ast.unparse(e.value)
            root = sn.split(".")[0]
            if root in st.env:
                vals = self.ev(e.value, st, exc)
                if len(vals) == 1 and vals[0][1].ty.kind == "list":
                    return [(vals[0][0], SV(Ty("func"), [], py=("bound", e.value, e.attr)))]
        return ExprMixin.ev_Attribute(self, e, st, exc)

    def st_Assign(self, s, st):
        outs = StmtMixin.st_Assign(self, s, st)
        if len(s.targets) == 1 and isinstance(s.targets[0], ast.Name):
            for o in outs:
                v = o.st.env.get(s.targets[0].id)
                if isinstance(v, SV) and v.ty.kind == "func" and isinstance(v.py, tuple) and v.py[0] == "bound":
                    self.bound_aliases[s.targets[0].id] = ast.unparse(v.py[1])
        if len(s.targets) == 1 and isinstance(s.targets[0], ast.Name):
            tgt = s.targets[0].id
            if tgt in self.bound_aliases.values():
                raise Unsupported("list %s reassigned while a bound-method alias is live" % tgt)
        return outs

    def havoc_loop(self, st, nodes, spec, extra_names=()):
        extra = set(extra_names)
        used = {n.id for nd in nodes for n in ast.walk(nd) if isinstance(n, ast.Name)}
        extra_fields = set()
        for alias, target in self.bound_aliases.items():
            if alias in used:
                if "." in target:
                    extra_fields.add(target.rsplit(".", 1)[1])
                else:
                    extra.add(target)
        saved = self.bound_aliases
        self.bound_aliases = {}
        try:
            StmtMixin.havoc_loop(self, st, nodes, spec, extra)
        finally:
            self.bound_aliases = saved
        for f in extra_fields:
            self.heap_havoc(st, f)

    # ------------------------------------------------------------------ run
    def entry(self):
        con = self.contract
        fn = self.found.node
        st = State()
        a = fn.args
        names = [x.arg for x in a.posonlyargs + a.args + a.kwonlyargs]
        if a.vararg or a.kwarg:
            raise Unsupported("*args/**kwargs in signature")
        for n in names:
            if n in con.types:
                ty = parse_type(con.types[n])
            elif n == "self" and self.found.cls_node is not None:
                ty = Ref(self.found.cls_node.name)
            elif n == "cls":
                ty = TCLS
            else:
                ty = TANY
                self.note("parameter %s untyped: opaque" % n)
            ts = [self.ctx.const("%s_%d" % (n, k) if len(flatten(ty)) > 1 else n, s) for k, s in enumerate(flatten(ty))]
            v = SV(ty, ts)
            if ty.kind == "regex":
                v.py = ("regex", n, None)
            for t in self.wf(v):
                st.assume(t)
            st.env[n] = v
        # distinct reference parameters of different declared classes are different objects
        refs = [(n, v) for n, v in st.env.items() if v.ty.kind == "ref"]
        # ghost variables are created lazily, on first mention (see ghost_entry)
        for name, expr in list(con.requires.items()) + list(con.assume.items()):
            st.assume(self.clause_term(expr, st.env, st))
        for name in con.assume:
            self.assumptions_used.add("assumed in %s: %s" % (con.id, con.assume[name]))
        return st

    def run(self):
        con = self.contract
        st = self.entry()
        self.entry_state = st.copy()
        self.after_sites_seen = set()
        self.params_env = {k: v for k, v in st.env.items() if k not in C.GHOSTS}
        self.pre_pc = list(st.pc)
        # make the join spec function available before execution when a clause mentions it
        txt = " ".join(list(con.ensures.values()) + [e for l in con.loops.values() for e in (l.get("invariant", {}).values() if isinstance(l.get("invariant", {}), dict) else l.get("invariant", []))])
        if ".join(" in txt:
            self.join_empty(smt.EmptySeq(STR))
        alltxt = txt + " ".join(e for d in con.raises.values() for e in d.values())
        if "cons(" in alltxt:
            self.define_spec("consumed")
            self.define_spec("cons")
        outs = self.exec_block(self.found.node.body, st)
        self.lemma_obligations()
        self.lemma_cons_concat()
        self.lemma_cons()
        for o in outs:
            if o.st.infeasible():
                continue
            self.paths += 1
            self.curline = self.first_line
            if o.kind in ("return", "normal"):
                self.exits["return"] += 1
                self.check_return(o)
            elif o.kind == "raise":
                self.exits["raise"] += 1
                self.check_raise(o)
            else:
                raise Unsupported("break/continue at function level")
        # vacuity guard: a clause tied to a program point must have met that point
        for key in con.ensures_local:
            if "@" in key:
                if key not in self.after_sites_seen:
                    raise Unsupported("program point of ensures_local %r not found in the source (no obligation generated)" % key)
        for label in getattr(con, "snapshots", {}):
            if "snapshot:" + label not in self.after_sites_seen:
                raise Unsupported("snapshot site %r not found in the source" % label)
        return self.obligations

    def recover_renaming(self):
        """rename recovery: when the function differs from the source recorded with the baseline only by a consistent
        renaming of its local names, the sidecar (which names locals in invariants and local postconditions) is applied to
        the function with the old names put back; the body verified is the current one up to that renaming"""
        import ast as _ast
        base = _baseline_sources().get(self.contract.id.split("@")[0])
        if not base:
            return
        try:
            old = _ast.parse(base).body[0]
        except (SyntaxError, IndexError):
            return
        if extract.normalised_source(self.found.node) == base:
            return
        m = extract.alpha_renaming(self.found.node, old)
        if m:
            node = extract.rename_locals(self.found.node, m)
            _ast.copy_location(node, self.found.node)
            self.found.node = node
            self.renamed = m

    def lemma_obligations(self):
        """generic lemmas whose instances were assumed during execution are proved here, once"""
        if "joinr_prefix_step" in self.lemmas_used:
            xs = self.ctx.const("lem_ys", smt.seq(STR))
            k = self.ctx.const("lem_k", INT)
            st = State()
            st.assume(smt.And(smt.Le(smt.Int(0), k), smt.Lt(k, smt.Len(xs))))
            goal = smt.Eq(self.join_empty(smt.Substr(xs, smt.Int(0), smt.Add(k, smt.Int(1)))),
                          smt.Concat(self.join_empty(smt.Substr(xs, smt.Int(0), k)), smt.At(xs, k)))
            self.oblige(st, goal, "%s#lemma.joinr_prefix_step" % self.short, "lemma", self.first_line,
                        "''.join(xs[:k+1]) == ''.join(xs[:k]) + xs[k]")
        if "joinr_append" in self.lemmas_used:
            xs = self.ctx.const("lem_xs", smt.seq(STR))
            x = self.ctx.const("lem_x", STR)
            st = State()
            goal = smt.Eq(self.join_empty(smt.Concat(xs, smt.Unit(x))), smt.Concat(self.join_empty(xs), x))
            self.oblige(st, goal, "%s#lemma.joinr_append" % self.short, "lemma", self.first_line,
                        "''.join(xs + [x]) == ''.join(xs) + x")

    def lemma_cons(self):
        if "cons_append" in self.lemmas_used:
            xs = SV(ListT(Ref()), [self.ctx.const("lem_rs", smt.seq(INT))])
            o = SV(Ref(), [self.ctx.const("lem_o", INT)])
            st = State()
            goal = smt.Eq(self.spec_app("cons", [SV(xs.ty, [smt.Concat(xs.ts[0], smt.Unit(o.ts[0]))])], st).ts[0],
                          smt.Concat(self.spec_app("cons", [xs], st).ts[0], self.spec_app("consumed", [o], st).ts[0]))
            self.oblige(st, goal, "%s#lemma.cons_append" % self.short, "lemma", self.first_line, "cons(xs + [o]) == cons(xs) + consumed(o)")

    def lemma_cons_concat(self):
        """cons(xs + ys) == cons(xs) + cons(ys), by induction on ys: base case ys == [] and step ys == ys0 + [o] with the
        statement for ys0 as hypothesis (xs arbitrary but fixed)"""
        if "cons_concat" not in self.lemmas_used:
            return
        xs = self.ctx.const("lemc_xs", smt.seq(INT))
        ys0 = self.ctx.const("lemc_ys0", smt.seq(INT))
        o = self.ctx.const("lemc_o", INT)
        mk = lambda t, st: self.spec_app("cons", [SV(ListT(Ref()), [t])], st).ts[0]      # noqa: E731
        st = State()
        empty = smt.EmptySeq(INT)
        self.oblige(st, smt.Eq(mk(smt.Concat(xs, empty), st), smt.Concat(mk(xs, st), mk(empty, st))),
                    "%s#lemma.cons_concat.base" % self.short, "lemma", self.first_line, "cons(xs + []) == cons(xs) + cons([])")
        st = State()
        st.assume(smt.Eq(mk(smt.Concat(xs, ys0), st), smt.Concat(mk(xs, st), mk(ys0, st))))          # induction hypothesis
        ys = smt.Concat(ys0, smt.Unit(o))
        cons_o = self.spec_app("consumed", [SV(Ref(), [o])], st).ts[0]
        # the single-element lemma (proved separately as lemma.cons_append) for the two lists involved
        self.lemmas_used.add("cons_append")
        st.assume(smt.Eq(mk(smt.Concat(smt.Concat(xs, ys0), smt.Unit(o)), st), smt.Concat(mk(smt.Concat(xs, ys0), st), cons_o)))
        st.assume(smt.Eq(mk(ys, st), smt.Concat(mk(ys0, st), cons_o)))
        st.assume(smt.Eq(smt.Concat(xs, ys), smt.Concat(smt.Concat(xs, ys0), smt.Unit(o))))
        self.oblige(st, smt.Eq(mk(smt.Concat(xs, ys), st), smt.Concat(mk(xs, st), mk(ys, st))),
                    "%s#lemma.cons_concat.step" % self.short, "lemma", self.first_line, "cons(xs + (ys + [o])) == cons(xs) + cons(ys + [o])")

    def post_env(self, st):
        env = dict(self.params_env)
        # a parameter the function mutates in place (contract: mutates=[...]) denotes its final value in a
        # postcondition, old(p) its value at entry
        for name in self.contract.mutates:
            if name in st.env:
                env[name] = st.env[name]
        return env

    def check_return(self, o):
        con = self.contract
        val = o.val if o.val is not None else NONE
        if con.returns == "bool" and val.ty.kind != "bool":
            self.note("return value modelled by its truthiness (callers only test it)")
            val = mk_bool(self.truthy(val))
        elif con.returns:
            val = self.coerce(val, parse_type(con.returns), o.st, " (return value)")
        self.apply_ghost_update(con.ghost_update, o.st, val)
        for name, expr in con.ensures.items():
            self.cur_clause = name
            g, sk = self.goal_term(expr, self.post_env(o.st), o.st, old=self.entry_state, result=val)
            site = ("ret%d" % o.site) if o.site is not None else "end"
            self.oblige(o.st, g, "%s#post.%s@%s" % (self.short, name, site), "ensures", self.curline, expr, sk)
        for name, expr in con.ensures_local.items():
            # postconditions that may mention the function's locals (evaluated in the state at the return)
            site = ("ret%d" % o.site) if o.site is not None else "end"
            if "@after:" in name:
                continue        # intermediate assertion, see check_after_assign
            if "@" in name:
                key = name
                name, only = name.split("@")
                if only != site:
                    continue
                self.after_sites_seen.add(key)
            self.cur_clause = name
            env = dict(o.st.env)
            env.update(self.params_env)
            g, sk = self.goal_term(expr, env, o.st, old=self.entry_state, result=val)
            self.oblige(o.st, g, "%s#post.%s@%s" % (self.short, name, site), "ensures", self.curline, expr, sk)
        self.check_frame(o.st, "post")

    def apply_ghost_update(self, updates, st, val=None):
        """ghost code of the sidecar: simultaneous assignment of ghost variables at an exit"""
        new = {}
        for g, expr in updates.items():
            cst = st.copy()
            cst.env = dict(self.post_env(st))
            cst.env.update(self.ghost_env(st))
            saved = (self.old_state, self.result_sv)
            self.old_state, self.result_sv = self.entry_state, val
            try:
                v = self.ev1(ast.parse(expr, mode="eval").body, cst)
            finally:
                self.old_state, self.result_sv = saved
            self.spec_mode += 1
            try:
                new[g] = self.coerce(v, parse_type(C.GHOSTS[g]), st)
            finally:
                self.spec_mode -= 1
        st.env.update(new)

    def frame_object(self, p, st):
        """object named in a modifies entry: a parameter or a bound module-level singleton"""
        obj = self.params_env[p] if p in self.params_env else self.global_value(p, st)
        if obj.ty.kind == "opt":
            obj = opt_inner(obj)
        return obj

    def check_frame(self, st, where):
        """every heap field written must be covered by the modifies clause"""
        con = self.contract
        whole = {m[2:] for m in con.modifies if m.startswith("*.")}
        at = {}
        for m in con.modifies:
            if "." in m and not m.startswith("*."):
                p, f = m.split(".", 1)
                at.setdefault(f, []).append(p)
        for f, cur in st.heap.items():
            ent = self.entry_state.heap.get(f)
            if ent is None:
                ent = SV(cur.ty, [self.ctx.const("H0_%s_%d" % (f, k), a.sort) for k, a in enumerate(cur.ts)])
            if all(a.s == b.s for a, b in zip(cur.ts, ent.ts)) or f in whole:
                continue
            goal = []
            cur = self.name_sv(st, cur, "Hf_" + f)
            for a, b in zip(cur.ts, ent.ts):
                allowed = b
                for p in at.get(f, []):
                    obj = self.frame_object(p, st)
                    allowed = smt.Store(allowed, obj.ts[0], smt.Select(a, obj.ts[0]))
                for n in st.allocated:      # objects created by this call are outside the frame
                    allowed = smt.Store(allowed, n, smt.Select(a, n))
                goal.append(smt.Eq(a, allowed))
            self.oblige(st, smt.And(*goal), "%s#frame.%s" % (self.short, f), "frame", self.curline,
                        "field .%s changes only where the modifies clause allows" % f)

    def check_raise(self, o):
        con = self.contract
        ex = o.val
        self.apply_ghost_update(con.ghost_update_exc, o.st)
        if ex.payload is not None and ex.payload.ty.kind == "excobj":
            self.params_env = dict(self.params_env)
            self.params_env["exc"] = SV(Ref(ex.payload.ty.cls), ex.payload.ts)
        names = [n for n in con.raises]

        def covers(key):
            """Bool term: the raised exception falls under the raises-key ('Name', '*', or '*!Excluded!...')"""
            if key == "*":
                return smt.TRUE
            if key.startswith("*!"):
                return smt.And(*[smt.Not(self.exc_matches(ex, [x])) for x in key.split("!")[1:]])
            return self.exc_matches(ex, [key])
        allowed = smt.Or(*[covers(n) for n in names]) if names else smt.FALSE
        label = ex.name or "unknown"
        self.oblige(o.st, allowed, "%s#raises.only_declared" % (self.short,), "raises", self.curline,
                    "exception %s escapes; declared: %s" % (label, names))
        for n in names:
            c = covers(n)
            if c.s == "false":
                continue
            s2 = o.st.copy().assume(c)
            for cname, expr in con.raises[n].items():
                g, sk = self.goal_term(expr, self.post_env(s2), s2, old=self.entry_state)
                self.oblige(s2, g, "%s#raises.%s.%s" % (self.short, n, cname), "raises", self.curline, expr, sk)


def _baseline_sources():
    global _SOURCES
    try:
        return _SOURCES
    except NameError:
        pass
    import json
    import os
    path = os.path.join(os.path.dirname(os.path.dirname(os.path.abspath(__file__))), "baseline", "sources.json")
    try:
        _SOURCES = json.load(open(path))
    except (OSError, ValueError):
        _SOURCES = {}
    return _SOURCES


def generate(contract):
    """-> dict(engine, obligations, error)"""
    t0 = time.time()
    try:
        eng = Engine(contract)
    except KeyError as e:
        return dict(engine=None, obligations=[], error="missing: %s" % e, seconds=time.time() - t0)
    try:
        obs = eng.run()
        err = None
    except Unsupported as e:
        obs = eng.obligations
        err = "unsupported: %s (L%d)" % (e, eng.relline)
    except Exception:
        obs = eng.obligations
        err = "engine-crash: " + traceback.format_exc()
    return dict(engine=eng, obligations=obs, error=err, seconds=time.time() - t0)
