"""C03 bounded stand-in [B] + F7 table [E].

[E]  the operator table: each of the expression classes Level_1_Expr .. Expr delegates to
     BinaryOpBase.match / UnaryOpBase.match with exactly the (lhs class, operator pattern, rhs class,
     direction) of the standard (R702-R723), read from the AST of the real source.
[B]  every expression tree with up to N operators over one or two representatives per precedence level,
     rendered with the minimal parentheses the standard requires: the real Expr rule must group it
     like the tree it was rendered from, and like the independent reference parser (spec/reference.py).
"""
import ast
import itertools
import json
import os
import sys
import time

ROOT = os.path.dirname(os.path.dirname(os.path.abspath(__file__)))
sys.path.insert(0, ROOT)
REPO = os.environ.get("VERIF_REPO", "/repo")
if REPO != "/repo":
    sys.path.insert(0, os.path.join(REPO, "src"))
sys.dont_write_bytecode = True

# (class, lhs, operator pattern, rhs, right-flag) from R702..R723; right=False means "cut at the first match"
STANDARD_TABLE = {
    "Level_1_Expr": ("unary", "pattern.defined_unary_op.named()", "Primary"),
    "Mult_Operand": ("binary", "Level_1_Expr", "pattern.power_op.named()", "Mult_Operand", False),
    "Add_Operand": ("binary", "Add_Operand", "pattern.mult_op.named()", "Mult_Operand", True),
    "Level_2_Expr": ("binary", "Level_2_Expr", "pattern.add_op.named()", "Add_Operand", True),
    "Level_2_Unary_Expr": ("unary", "pattern.add_op.named()", "Add_Operand"),
    "Level_3_Expr": ("binary", "Level_3_Expr", "pattern.concat_op.named()", "Level_2_Expr", True),
    "Level_4_Expr": ("binary", "Level_3_Expr", "pattern.rel_op.named()", "Level_3_Expr", True),
    "And_Operand": ("unary", "pattern.not_op.named()", "Level_4_Expr"),
    "Or_Operand": ("binary", "Or_Operand", "pattern.and_op.named()", "And_Operand", True),
    "Equiv_Operand": ("binary", "Equiv_Operand", "pattern.or_op.named()", "Or_Operand", True),
    "Level_5_Expr": ("binary", "Level_5_Expr", "pattern.equiv_op.named()", "Equiv_Operand", True),
    "Expr": ("binary", "Expr", "pattern.defined_binary_op.named()", "Level_5_Expr", True),
}
CHAIN = ["Expr", "Level_5_Expr", "Equiv_Operand", "Or_Operand", "And_Operand", "Level_4_Expr", "Level_3_Expr", "Level_2_Expr",
         "Add_Operand", "Mult_Operand", "Level_1_Expr", "Primary"]


def table_check(failures):
    path = os.path.join(REPO, "src", "fparser", "two", "Fortran2003.py")
    tree = ast.parse(open(path, encoding="utf-8").read())
    classes = {n.name: n for n in tree.body if isinstance(n, ast.ClassDef)}
    rows = []
    for name, want in STANDARD_TABLE.items():
        cls = classes.get(name)
        fn = next((n for n in cls.body if isinstance(n, ast.FunctionDef) and n.name == "match"), None) if cls else None
        calls = [n for n in ast.walk(fn) if isinstance(n, ast.Call) and isinstance(n.func, ast.Attribute) and n.func.attr == "match"
                 and isinstance(n.func.value, ast.Name) and n.func.value.id in ("BinaryOpBase", "UnaryOpBase")] if fn else []
        if len(calls) != 1:
            failures.append(dict(obligation="F7.table#row_%s" % name, witness=dict(cls=name), observed="no single delegation to Binary/UnaryOpBase.match"))
            continue
        c = calls[0]
        args = [ast.unparse(a) for a in c.args]
        kws = {k.arg: ast.unparse(k.value) for k in c.keywords}
        if want[0] == "binary":
            got = ("binary", args[0], args[1], args[2], kws.get("right", "True") == "True")
            ok = c.func.value.id == "BinaryOpBase" and got == want
        else:
            got = ("unary", args[0], args[1])
            ok = c.func.value.id == "UnaryOpBase" and got == want
        rows.append(dict(cls=name, got=got))
        if not ok:
            failures.append(dict(obligation="F7.table#row_%s" % name, witness=dict(cls=name), observed=dict(got=got, standard=want)))
    # the levels are chained in the standard's order through subclass_names
    for a, b in zip(CHAIN, CHAIN[1:]):
        cls = classes.get(a)
        sub = None
        for n in cls.body:
            if isinstance(n, ast.Assign) and any(isinstance(t, ast.Name) and t.id == "subclass_names" for t in n.targets):
                sub = ast.literal_eval(n.value)
        if a == "Level_2_Expr":
            ok = sub == ["Level_2_Unary_Expr"]          # unary level sits between Level_2_Expr and Add_Operand
        elif a == "Mult_Operand":
            ok = sub == ["Level_1_Expr"]
        else:
            ok = sub is not None and sub[:1] == [b] if a not in ("Level_1_Expr",) else sub == ["Primary"]
        if not ok:
            failures.append(dict(obligation="F7.table#chain_%s" % a, witness=dict(cls=a), observed=dict(subclass_names=sub, expected_first=b)))
    return rows


# ------------------------------------------------------------------------------------------ bounded part
# precedence (higher binds tighter), associativity, unary flag
OPS = [
    (".myop.", 1, "left", False), (".eqv.", 2, "left", False), (".neqv.", 2, "left", False), (".or.", 3, "left", False), (".and.", 4, "left", False),
    (".not.", 5, "unary", True), ("==", 6, "none", False), (".lt.", 6, "none", False), ("//", 7, "left", False),
    ("+", 8, "left", False), ("-", 8, "left", False), ("u-", 8, "unary", True),
    ("*", 9, "left", False), ("/", 9, "left", False), ("**", 10, "right", False), (".uop.", 11, "unary", True),
]
OPERANDS = ["a", "1.0e-3", "b(i)", "f(x, y)", "s%c", ".true.", "'p+q'", "2"]


def gen_trees(n, counter):
    """all trees with exactly n operators; leaves are taken round-robin from OPERANDS"""
    if n == 0:
        counter[0] += 1
        yield ("leaf", OPERANDS[counter[0] % len(OPERANDS)])
        return
    for op, prec, assoc, unary in OPS:
        if unary:
            for t in gen_trees(n - 1, counter):
                yield ("un", op, t)
        else:
            for k in range(n):
                for l in gen_trees(k, counter):
                    for r in gen_trees(n - 1 - k, counter):
                        yield ("bin", op, l, r)


def prec_of(t):
    if t[0] == "leaf":
        return 99
    return next(p for o, p, a, u in OPS if o == t[1])


def assoc_of(op):
    return next(a for o, p, a, u in OPS if o == op)


def render(t):
    """minimal parentheses per the standard's grammar"""
    if t[0] == "leaf":
        return t[1]
    if t[0] == "un":
        op, x = t[1], t[2]
        sym = "-" if op == "u-" else op
        inner = render(x)
        p = prec_of(t)
        # operand of a unary operator: defined-unary takes a primary; sign takes an add-operand; .not. takes a level-4
        need = {11: 12, 8: 9, 5: 6}[p]
        if prec_of(x) < need:
            inner = "(%s)" % inner
        return "%s %s" % (sym, inner)
    op, l, r = t[1], t[2], t[3]
    p = prec_of(t)
    a = assoc_of(op)
    ls, rs = render(l), render(r)
    lp, rp = prec_of(l), prec_of(r)
    if a == "left":
        lneed, rneed = p, p + 1
    elif a == "right":
        lneed, rneed = p + 1, p
    else:
        lneed, rneed = p + 1, p + 1
    # a signed operand (unary minus) may only start a level-2 expression
    if l[0] == "un" and l[1] == "u-":
        lp = 8 if p <= 8 and a == "left" else 0
        if p < 8:
            lp = 8
    if r[0] == "un" and r[1] == "u-":
        rp = 0 if p >= 8 else 8
    if l[0] == "un" and l[1] == ".not." and p > 5:
        lp = 0
    if r[0] == "un" and r[1] == ".not." and p > 5:
        rp = 0
    if p == 10:      # power: left operand is a level-1 expr, right a mult-operand
        lneed, rneed = 11, 10
    if lp < lneed:
        ls = "(%s)" % ls
    if rp < rneed:
        rs = "(%s)" % rs
    return "%s %s %s" % (ls, op, rs)


def paren(t, wrapped=False):
    """fully parenthesised form in the notation of spec.reference (what the rendering means)"""
    if t[0] == "leaf":
        s = t[1].replace(" ", "")
        return s.upper() if s[0] in "0123456789." else s
    if t[0] == "un":
        sym = "-" if t[1] == "u-" else t[1].upper()
        return "(%s %s)" % (sym, child(t, t[2], "u"))
    return "(%s %s %s)" % (child(t, t[2], "l"), t[1].upper(), child(t, t[3], "r"))


def child(parent, c, side):
    """the child as it appears under parent after minimal parenthesisation (parentheses are retained as nodes)"""
    text_parent = render(parent)
    # decide whether render() wrapped this child: re-run the same rule
    sub = render(c)
    if parent[0] == "un":
        wrapped = ("%s (%s)" % ("-" if parent[1] == "u-" else parent[1], sub)) == text_parent
    else:
        l, r = render(parent[2]), render(parent[3])
        if side == "l":
            wrapped = text_parent.startswith("(%s) %s " % (l, parent[1]))
        else:
            wrapped = text_parent.endswith(" %s (%s)" % (parent[1], r))
    inner = paren(c)
    return "[%s]" % inner if wrapped else inner


def norm(s):
    return s.replace(" ", "").lower()


def main(argv):
    tier = argv[argv.index("--tier") + 1] if "--tier" in argv else "quick"
    seed = int(argv[argv.index("--seed") + 1]) if "--seed" in argv else 0
    t0 = time.time()
    failures, samples = [], []
    rows = table_check(failures)
    from fparser.two.parser import ParserFactory
    from fparser.two.utils import FparserException
    from spec.reference import parse_expr, fparser_paren
    cases = distinct = 0
    for std in ("f2003", "f2008"):
        ParserFactory().create(std=std)
        from fparser.two.Fortran2003 import Expr
        maxops = 3 if tier == "thorough" else 2
        counter = [seed]
        seen = set()
        for n in range(0, maxops + 1):
            for t in gen_trees(n, counter):
                text = render(t)
                if text in seen:
                    continue
                seen.add(text)
                cases += 1
                want = norm(paren(t))
                try:
                    ref = norm(parse_expr(text))
                except Exception as e:
                    ref = "reference-error:%s" % e
                if ref != want:
                    continue      # the rendering is outside the fragment on which generator and reference agree: not a case
                distinct += 1
                try:
                    got = norm(fparser_paren(Expr(text)))
                except FparserException as e:
                    got = "no-match"
                if got != want:
                    import re as _re
                    oid = "two.Fortran2003:Expr#groups_per_standard"
                    segs, cur = [], text
                    while True:
                        inner = _re.findall(r"\(([^()]*)\)", cur)
                        if not inner:
                            break
                        segs += inner
                        cur = _re.sub(r"\([^()]*\)", "P", cur)
                    segs.append(cur)
                    if got == "no-match" and any(_re.search(r"\.myop\..*\.[a-z]+\.", sg) for sg in segs):
                        # known class: a defined binary operator with a dotted token (operator or logical literal) to its right
                        oid = "two.Fortran2003:Expr#accepts.defined_binary_op_followed_by_dotted_operator"
                        if any(f["obligation"] == oid and f["witness"]["std"] == std for f in failures):
                            continue
                    if len(failures) < 12:
                        failures.append(dict(obligation=oid, witness=dict(std=std, text=text),
                                             observed=dict(fparser=got, standard=want)))
                elif len(samples) < 3 and n == maxops and distinct % 977 == 0:
                    samples.append(dict(text=text, grouping=want))
    # every spelling of every intrinsic operator, in the contexts where its level matters (the tree enumeration above uses
    # one or two representatives per level)
    SPELLINGS = {6: ["==", "/=", "<", "<=", ">", ">=", ".eq.", ".ne.", ".lt.", ".le.", ".gt.", ".ge.", ".EQ.", ".Ne.", ". ne .", ".GE."],
                 4: [".and.", ".AND.", ".And.", ". and .", ".and .", ". AND."], 3: [".or.", ".OR.", ". or .", ". Or."], 2: [".eqv.", ".neqv.", ".EQV.", ".NEQV.", ". eqv .", ". neqv ."],
                 0: [".not.", ".NOT.", ". not .", ".Not ."],
                 7: ["//"], 8: ["+", "-"], 9: ["*", "/"], 10: ["**"]}
    CONTEXTS = ["a %s b", "a .and. b %s c", "a %s b .and. c", ".not. a %s b", "a .or. b %s c", "a %s b .eqv. c", "a + b %s c * d", "a %s b + c",
                "a // b %s c", "a .myop. b %s c", "(a %s b) .and. c", "a ** b %s c", "- a %s b"]
    for std in ("f2003", "f2008"):
        ParserFactory().create(std=std)
        from fparser.two.Fortran2003 import Expr
        import re as _re_sp
        UNARY_CONTEXTS = ["%s a", "%s a == b", "%s a .and. b", "a .or. %s b", "a .and. %s b .or. c", "%s a .eqv. b", "%s (a .or. b) .and. c", "a .myop. %s b", "%s a // b == c"]
        for level, spellings in SPELLINGS.items():
            for sp in spellings:
                for ctx in (UNARY_CONTEXTS if level == 0 else CONTEXTS):
                    text = ctx % sp
                    cases += 1
                    try:
                        # blanks inside the dots of an operator are not significant: the reference sees the compact spelling
                        want = norm(parse_expr(_re_sp.sub(r"\.\s*([A-Za-z]+)\s*\.", lambda m: "." + m.group(1) + ".", text)))
                    except Exception:
                        continue        # not a valid expression (e.g. two non-associative relational operators in a row)
                    distinct += 1
                    try:
                        got = norm(fparser_paren(Expr(text)))
                    except FparserException:
                        got = "no-match"
                    if got != want:
                        oid = "two.Fortran2003:Expr#operator_spelling_groups_at_its_level"
                        if got == "no-match" and ".myop." in text and "." in text.split(".myop.")[1]:
                            oid = "two.Fortran2003:Expr#accepts.defined_binary_op_followed_by_dotted_operator"
                            if any(f["obligation"] == oid and f["witness"]["std"] == std for f in failures):
                                continue
                        if len(failures) < 40:
                            failures.append(dict(obligation=oid, witness=dict(std=std, text=text, operator=sp), observed=dict(fparser=got, standard=want)))
    print(json.dumps(dict(name="bounded_expr", cases=cases, distinct=distinct, exhaustive=True, failures=failures, samples=samples or [dict(table=rows[:3])],
                          rule="expression trees with up to N operators (N=2 quick, 3 thorough) over %d operators and %d operand kinds, minimal parentheses; "
                               "a case counts when the generator's intended grouping and the independent reference parser agree" % (len(OPS), len(OPERANDS)),
                          bounded=True, table_rows=len(rows),
                          assumptions=["bounded: expression depth limited as stated; the reference parser (spec/reference.py) is written from R702-R723"],
                          seconds=round(time.time() - t0, 2))))
    return 0


def replay(path):
    data = json.load(open(path))
    w = data.get("witness") or {}
    if "text" not in w:
        print("table row:", w, data.get("observed"))
        return 1
    from fparser.two.parser import ParserFactory
    from spec.reference import parse_expr, fparser_paren
    ParserFactory().create(std=w.get("std", "f2003"))
    from fparser.two.Fortran2003 import Expr
    try:
        got = fparser_paren(Expr(w["text"]))
    except Exception as e:  # noqa
        got = "no-match (%s)" % type(e).__name__
    want = parse_expr(w["text"])
    print("expression %r\n  fparser groups it as  %s\n  the standard requires %s" % (w["text"], got, want))
    return 1 if norm(got) != norm(want) else 0


if __name__ == "__main__":
    if "--replay" in sys.argv:
        sys.exit(replay(sys.argv[sys.argv.index("--replay") + 1]))
    sys.exit(main(sys.argv[1:]))
