"""Frame facts [E] by AST scan of the real package (C09, C16, C06).

1. inventory of module-level mutable state written from inside functions: every entry must be in the
   reviewed list below (a new cache / global is a new way for one parse to influence the next);
2. call sites of SymbolTables.enter_scope / exit_scope / remove / clear: only BlockBase.match,
   Main_Program0.match and ParserFactory.create (and the symbol-table module itself);
3. call sites of sys.exit / reader.error on parse paths (C06);
4. the two open() calls of the readers pass errors="fparser-logging" and the handler never raises (N1).
"""
import ast
import json
import os
import sys
import time

REPO = os.environ.get("VERIF_REPO", "/repo")
SRC = os.path.join(REPO, "src", "fparser")

# reviewed inventory: (module path relative to src/fparser, name) -> why it cannot carry state between parses
REVIEWED_STATE = {
    ("two/symbol_table.py", "SYMBOL_TABLES"): "cleared by ParserFactory.create; scope discipline proved (U8a, F3)",
    ("two/parser.py", "Base.subclasses"): "assigned a fresh dict at the start of ParserFactory._setup (registry enumeration)",
    ("common/utils.py", "_classes_cache"): "fparser1 helper (class registry of the legacy parser), not used by fparser2",
    ("common/splitline.py", "memo"): "memoisation of string_replace_map keyed by all arguments (pure function of them)",
    ("common/splitline.py", "cached:string_replace_map"): "the only memoised function: returns (str, StringReplaceDict); the dict is only read by its callers "
                                                           "(bounded cross-check: same source parsed twice, bounded_trees C09)",
    ("two/Fortran2008/block_stmt_r808.py", "Block_Stmt.counter"): "synthetic names of unnamed BLOCKs (excluded by the property)",
    ("two/Fortran2003.py", "Block_Stmt.counter"): "synthetic names of unnamed BLOCKs (excluded by the property)",
    ("two/pattern_tools.py", "Pattern._compiled_pattern"): "per-object cache of a compiled regex (function of the pattern text)",
    ("two/utils.py", "DynamicImport.*"): "class references set once by import_now()",
    ("one/parsefortran.py", "FortranParser.cache"): "fparser1 only",
    ("common/readfortran.py", "FortranReaderBase.*"): "per-reader instance state",
    ("two/utils.py", "_EXTENSIONS"): "module constant, appended to at import time only",
}

SCOPE_CALLS_ALLOWED = {
    ("two/utils.py", "BlockBase.match"), ("two/Fortran2003.py", "Main_Program0.match"), ("two/parser.py", "ParserFactory.create"),
}


def functions(tree):
    """yield (qualname, node) for every function, methods qualified by class"""
    def walk(body, prefix):
        for n in body:
            if isinstance(n, ast.ClassDef):
                yield from walk(n.body, prefix + n.name + ".")
            elif isinstance(n, (ast.FunctionDef, ast.AsyncFunctionDef)):
                yield prefix + n.name, n
                yield from walk(n.body, prefix + n.name + ".")
    yield from walk(tree.body, "")


def main(argv):
    t0 = time.time()
    failures, cases, samples = [], 0, []
    globals_written = []
    scope_sites, exit_sites, open_sites = [], [], []
    for root, dirs, files in os.walk(SRC):
        dirs[:] = [d for d in dirs if d not in ("tests", "__pycache__")]
        for fn in files:
            if not fn.endswith(".py"):
                continue
            path = os.path.join(root, fn)
            rel = os.path.relpath(path, SRC)
            if rel.startswith("one/") or rel.startswith("scripts/") or rel == "api.py":
                continue
            tree = ast.parse(open(path, encoding="utf-8").read())
            modlevel = {t.id for n in tree.body if isinstance(n, ast.Assign) for t in n.targets if isinstance(t, ast.Name)}
            classes = {n.name for n in tree.body if isinstance(n, ast.ClassDef)}
            # class-level mutable containers that some method mutates through self/cls (shared by all instances)
            for cnode in [n for n in ast.walk(tree) if isinstance(n, ast.ClassDef)]:
                shared = {t.id for n in cnode.body if isinstance(n, ast.Assign) for t in n.targets if isinstance(t, ast.Name)
                          and (isinstance(n.value, (ast.Dict, ast.List, ast.Set)) or (isinstance(n.value, ast.Call) and isinstance(n.value.func, ast.Name)
                                                                                     and n.value.func.id in ("dict", "list", "set", "deque", "defaultdict")))}
                for fn in [n for n in cnode.body if isinstance(n, ast.FunctionDef)]:
                    own = {t.attr for n in ast.walk(fn) if isinstance(n, ast.Assign) for t in n.targets
                           if isinstance(t, ast.Attribute) and isinstance(t.value, ast.Name) and t.value.id == "self"}
                    for n in ast.walk(fn):
                        tgt = None
                        if isinstance(n, ast.Subscript) and isinstance(n.ctx, (ast.Store, ast.Del)):
                            tgt = n.value
                        elif isinstance(n, ast.Call) and isinstance(n.func, ast.Attribute) and n.func.attr in ("append", "add", "update", "insert", "extend", "pop", "clear", "setdefault", "appendleft"):
                            tgt = n.func.value
                        if isinstance(tgt, ast.Attribute) and isinstance(tgt.value, ast.Name) and tgt.value.id in ("self", "cls", cnode.name) \
                                and tgt.attr in shared and not (fn.name == "__init__" and tgt.attr in own):
                            globals_written.append((rel, "%s.%s(class-level container)" % (cnode.name, tgt.attr), "%s.%s" % (cnode.name, fn.name)))
            for qual, fnode in functions(tree):
                cases += 1
                declared_global = {g for n in ast.walk(fnode) if isinstance(n, ast.Global) for g in n.names}
                for n in ast.walk(fnode):
                    # writes to globals / class attributes
                    if isinstance(n, (ast.Assign, ast.AugAssign)):
                        tg = n.targets if isinstance(n, ast.Assign) else [n.target]
                        for t in tg:
                            if isinstance(t, ast.Name) and t.id in declared_global:
                                globals_written.append((rel, t.id, qual))
                            if isinstance(t, ast.Attribute) and isinstance(t.value, ast.Name) and (t.value.id in classes or t.value.id in ("Base", "DynamicImport")):
                                globals_written.append((rel, "%s.%s" % (t.value.id, t.attr), qual))
                            if isinstance(t, ast.Attribute) and isinstance(t.value, ast.Attribute) and isinstance(t.value.value, ast.Name) \
                                    and t.value.attr == "Base" and t.attr == "subclasses":
                                globals_written.append((rel, "Base.subclasses", qual))
                            if isinstance(t, ast.Subscript) and isinstance(t.value, ast.Name) and t.value.id in modlevel and t.value.id not in {a.arg for a in fnode.args.args}:
                                globals_written.append((rel, t.value.id, qual))
                    if isinstance(n, ast.Call) and isinstance(n.func, ast.Attribute):
                        recv = n.func.value
                        if n.func.attr in ("enter_scope", "exit_scope", "remove", "clear") and isinstance(recv, ast.Name) and recv.id == "SYMBOL_TABLES":
                            scope_sites.append((rel, qual, n.func.attr, n.lineno))
                        if n.func.attr in ("append", "add", "update", "insert", "extend", "pop", "clear", "setdefault") and isinstance(recv, ast.Name) \
                                and recv.id in modlevel and recv.id not in {a.arg for a in fnode.args.args} and recv.id not in {x.id for x in ast.walk(fnode) if isinstance(x, ast.Name) and isinstance(x.ctx, ast.Store)}:
                            globals_written.append((rel, recv.id, qual))
                        if n.func.attr == "exit" and isinstance(recv, ast.Name) and recv.id == "sys":
                            exit_sites.append((rel, qual, n.lineno))
                    if isinstance(n, ast.Call) and isinstance(n.func, ast.Name) and n.func.id == "open":
                        kws = {k.arg: k.value for k in n.keywords}
                        ok = "errors" in kws and isinstance(kws["errors"], ast.Constant) and kws["errors"].value == "fparser-logging"
                        open_sites.append((rel, qual, n.lineno, ok))
                # closure state of decorators (memoize)
                if qual == "memoize":
                    globals_written.append((rel, "memo", qual))
                # every function that keeps results between calls (memoize / functools caches): process-wide state whose values
                # callers must not be able to change (a cached mutable result that a caller edits in place leaks between parses)
                for dec in fnode.decorator_list:
                    dn = ast.unparse(dec.func if isinstance(dec, ast.Call) else dec)
                    if dn.split(".")[-1] in ("memoize", "lru_cache", "cache", "cached_property"):
                        globals_written.append((rel, "cached:" + qual, qual))
    # 1. inventory
    for rel, name, qual in sorted(set(globals_written)):
        key = (rel, name)
        generic = (rel, name.split(".")[0] + ".*")
        if "(class-level container)" in name:
            generic = None
        if key not in REVIEWED_STATE and generic not in REVIEWED_STATE:
            failures.append(dict(obligation="frame.inventory#no_unreviewed_global_state", witness=dict(module=rel, name=name, written_in=qual),
                                 observed="module-level / class-level state written inside a function is not in the reviewed inventory"))
    samples.append(dict(state_written=sorted({"%s:%s" % (r, n) for r, n, _ in globals_written})))
    # 2. scope call sites
    for rel, qual, what, line in scope_sites:
        if rel == "two/symbol_table.py":
            continue
        if (rel, qual) not in SCOPE_CALLS_ALLOWED:
            failures.append(dict(obligation="frame.scope_calls#only_block_match_and_create", witness=dict(module=rel, function=qual, call=what, line=line),
                                 observed="SYMBOL_TABLES.%s called outside the functions under the scope contracts" % what))
    samples.append(dict(scope_call_sites=sorted({"%s:%s:%s" % (r, q, w) for r, q, w, _ in scope_sites})))
    # 3. process exits
    allowed_exit = {("common/readfortran.py", "FortranReaderBase.error")}
    for rel, qual, line in exit_sites:
        if (rel, qual) not in allowed_exit:
            failures.append(dict(obligation="frame.exits#no_new_sys_exit", witness=dict(module=rel, function=qual, line=line),
                                 observed="sys.exit on a library path"))
    samples.append(dict(sys_exit_sites=["%s:%s" % (r, q) for r, q, _ in exit_sites]))
    # 4. decoding
    for rel, qual, line, ok in open_sites:
        if rel in ("common/readfortran.py", "common/sourceinfo.py") and not ok:
            failures.append(dict(obligation="frame.decode#open_uses_logging_handler", witness=dict(module=rel, function=qual, line=line),
                                 observed="open() without errors='fparser-logging'"))
    samples.append(dict(open_sites=["%s:%s:%s" % (r, q, ok) for r, q, _, ok in open_sites]))
    print(json.dumps(dict(name="enum_frame", cases=cases, distinct=cases, exhaustive=True, failures=failures, samples=samples,
                          rule="every function of src/fparser (two/, common/, __init__) scanned for writes to module/class level state, scope calls, sys.exit and open()",
                          assumptions=["the scan is syntactic: state reached through setattr/exec/aliases is not seen (the one exec in the package, the class generator in "
                                       "Fortran2003/Fortran2008, runs at import time)"],
                          seconds=round(time.time() - t0, 2))))
    return 0


def replay(path):
    data = json.load(open(path))
    print("witness:", data.get("witness"), "observed at check time:", data.get("observed"))
    return 1


if __name__ == "__main__":
    if "--replay" in sys.argv:
        sys.exit(replay(sys.argv[sys.argv.index("--replay") + 1]))
    sys.exit(main(sys.argv[1:]))
