"""Bounded stand-ins [B] over a catalogue of small programs, on the real parser.

  C10  every tree is well formed: each node once, parent == containing node, root has no parent,
       get_root() is the root, walk() visits every node once in source order
  C18  deepcopy / pickle: same text, same structure, well formed, no shared node
  C01  print -> re-parse -> same repr, print again -> same text   (both standards, comments kept / dropped)
  C08  every single-parenthesis insertion / deletion in a statement is rejected
  C07  replacing one statement by garbage is reported at that statement's last physical line
  C13  unresolved INCLUDE kept; resolved include equals the inlined text (temp dir)
  C14  directive lines inserted at statement boundaries: original tree plus one node per directive
  C20  rule-constructor calls grow polynomially in nesting depth / repetition count

Selected with --only C10,C18,...   Each failure carries the program text as witness.
"""
import copy
import json
import os
import pickle
import sys
import tempfile
import time

ROOT = os.path.dirname(os.path.dirname(os.path.abspath(__file__)))
sys.path.insert(0, ROOT)
REPO = os.environ.get("VERIF_REPO", "/repo")
if REPO != "/repo":
    sys.path.insert(0, os.path.join(REPO, "src"))
sys.dont_write_bytecode = True

CATALOGUE = {
    "plain": "program p\n  integer :: i, a(10)\n  real :: x\n  x = 1.0e-3 * (i + 2)\n  if (x > 0) then\n    a(i) = f(x, 'a b')\n  else if (x < 0) then\n    call s(i)\n  else\n    x = -x ** 2\n  end if\nend program p\n",
    "module": "module m\n  use other, only: q\n  implicit none\n  type t\n    integer :: k\n  end type t\ncontains\n  subroutine s(a)\n    integer, intent(in) :: a\n    print *, a\n  end subroutine s\n  function f(y) result(r)\n    real :: y, r\n    r = sin(y)\n  end function f\nend module m\n",
    "labelled_do_action_term": "subroutine w(a, n)\n  integer n, i\n  real a(n)\n  do 20 i = 1, n\n    if (a(i) > 0) then\n      a(i) = 0\n    end if\n20 a(i) = a(i) + 1\nend subroutine w\n",
    "labelled_do_continue": "subroutine w(a, n)\n  integer n, i, j\n  real a(n, n)\n  do 10 i = 1, n\n  do 10 j = 1, n\n    a(i, j) = 0\n10 continue\nend subroutine w\n",
    "equivalence_data": "program e\n  real a(4), b(4)\n  integer k\n  equivalence (a(1), b(2)), (k, a(3))\n  data k /3/\n  common /blk/ a\nend program e\n",
    "select_where": "program s\n  integer :: i\n  real :: v(3)\n  select case (i)\n  case (1)\n    v = 0\n  case default\n    where (v > 0)\n      v = 1\n    elsewhere\n      v = 2\n    end where\n  end select\n  outer: do i = 1, 3\n    if (i == 2) cycle outer\n  end do outer\nend program s\n",
    "comments": "program c\n  ! first\n  integer :: i ! trailing\n  !$omp parallel\n  i = 1 &\n  ! inside\n    + 2\nend program c\n",
    "include_cpp": "program i\n#ifdef X\n  integer :: a\n#endif\n  include 'missing_file.inc'\n  a = 1\nend program i\n",
    "io_format": "program o\n  open(unit=10, file='x')\n  write(10, 100) 1, 2.0\n100 format(i5, 1x, f10.3)\n  read(*, *) a\n  close(10)\nend program o\n",
    "long_lists": "program l\n  integer :: idx(12), m(3, 3), i\n  real :: v(12)\n  common /blk/ idx, v\n  data idx / 1, 2, 3, 1, 2, 3, 1, 2, 3, 4, 1, 2 /\n  v = (/ 1.0, 2.0, 1.0, 2.0, 1.0, 2.0, 1.0, 2.0, 1.0, 2.0, 1.0, 2.0 /)\n  m(1, 1) = max(i, i, i, i, i, i, i, i, i, i)\n  write(*, 100) i, i, i, i, i, i, i, i, i, i\n100 format(i2, i2, i2, i2, 1x, i2, i2, i2, 1x, i2, i2, i2)\n  do i = 1, 3\n    m(i, i) = i\n  end do\nend program l\n",
    "repeats": "subroutine r\n  real x, y, z, w, u(2), t(2)\n  integer k, l\n  real(kind=8) :: d1\n  real(kind=8) :: d2\n  character(len=10) :: c1\n  character(len=10) :: c2\n  integer*4 i4a\n  integer*4 i4b\n  common /a/ x, y /b/ z /a/ w\n  namelist /g/ x, y /h/ z /g/ w\n  equivalence (u(1), t(1)), (u(1), k), (u(1), l)\n  data k /1/, l /1/\n  save /a/, /b/, /a/\n  x = x + x * x\n  call s(x, x, x)\n  if (x > x) x = x\nend subroutine r\n",
    "named_constructs": ("subroutine nm(a, n)\n  integer :: n, i\n  real :: a(n)\n  lp: do i = 1, n\n    chk: if (a(i) > 0) then\n      a(i) = 1\n    else if (a(i) < 0) then chk\n"
                           "      a(i) = 2\n    else chk\n      a(i) = 3\n    end if chk\n  end do lp\n  pick: select case (n)\n  case (1) pick\n    a = 4\n  case default pick\n    a = 5\n"
                           "  end select pick\n  wh: where (a > 0)\n    a = 6\n  elsewhere wh\n    a = 7\n  end where wh\n  as: associate (b => a(1))\n    b = 8\n  end associate as\n"
                           "  fa: forall (i = 1:n)\n    a(i) = 9\n  end forall fa\nend subroutine nm\n"),
    "two_units": "subroutine a\nend subroutine a\nfunction b()\n  b = 1\nend function b\n",
    "duplicate_statements": "program d\n  integer :: i, j\n  i = 1\n  j = 2\n  i = 1\n  print *, i, j\n  j = 2\n  print *, i, j\nend program d\n",
    "same_text_different_names": ("subroutine q(a, n)\n  integer :: n, i\n  real :: a(n)\n  first: do i = 1, n\n    a(i) = 0\n  end do first\n  second: do i = 1, n\n    a(i) = 1\n  end do second\n"
                                  "  chk1: if (n > 0) then\n    a(1) = 2\n  end if chk1\n  chk2: if (n > 0) then\n    a(1) = 3\n  end if chk2\n10 continue\n20 continue\nend subroutine q\n"),
    "block_data_units": "block data bd\n  common /c/ a, b\n  data a /1/, b /2/\nend block data bd\nblock data\n  common /d/ e\nend block data\n",
    "select_type_names": "subroutine st(obj)\n  class(*) :: obj\n  sel: select type (q => obj)\n  type is (integer) sel\n    k = 1\n  class is (tt) sel\n    k = 2\n  class default sel\n    k = 3\n  end select sel\nend subroutine st\n",
    "comment_runs": ("subroutine cr(v, m)\n  ! one\n  ! two\n  real :: v(3)\n  logical :: m(3)\n  v = 0\n  ! three\n\n  ! four\n  where (m)\n    ! five\n    ! six\n    v = 1\n  elsewhere\n    v = 2\n  end where\n"
                     "  ! seven\n  ! eight\n  if (v(1) > 0) then\n    ! nine\n    ! ten\n    v(1) = 0\n  end if\n  ! eleven\n  ! twelve\n  do i = 1, 3\n    v(i) = i\n  end do\n  ! thirteen\n  ! fourteen\n"
                     "  select case (i)\n  ! fifteen\n  ! sixteen\n  case (1)\n    v = 3\n  end select\n  ! seventeen\n  ! eighteen\nend subroutine cr\n! nineteen\n! twenty\n"),
    # names are case-insensitive: the END statements (and construct ends) spell the names in another case than the openers
    "mixed_case_names": ("module MixMod\n  type :: PointT\n    real :: x\n  end type pointt\n  interface Gen\n    module procedure Sub1\n  end interface GEN\ncontains\n"
                         "  subroutine Sub1(a)\n    real :: a\n    Outer: do i = 1, 3\n      Chk: if (a > 0) then\n        a = a - 1\n      end if CHK\n    end do outer\n  end subroutine SUB1\n"
                         "  integer function Fun2(k)\n    integer :: k\n    fun2 = k\n  end function fUN2\nend module mixmod\nprogram MainP\n  use mixmod\n  x = 1\nend program mainp\n"),
    "anonymous_main": "integer :: a, b(3)\nreal :: x\na = 1\nif (a > 0) then\n  b(a) = 2\nend if\ncall s(a)\nend\nsubroutine s(k)\n  integer :: k\n  k = k + 1\nend subroutine s\n",
}
F2008_EXTRA = {
    "block_critical": "program b\n  block\n    integer :: j\n    j = 1\n  end block\n  critical\n    i = 2\n  end critical\n  do concurrent (i = 1:3)\n    x = i\n  end do\n  error stop\nend program b\n",
}


def parse(src, std="f2003", **kw):
    from fparser.two.parser import ParserFactory
    from fparser.common.readfortran import FortranStringReader
    return ParserFactory().create(std=std)(FortranStringReader(src, **kw))


def children_of(node):
    from fparser.two.utils import Base

    def flat(x):
        if isinstance(x, Base):
            yield x
        elif isinstance(x, (list, tuple)):
            for y in x:
                yield from flat(y)
    return list(flat(node.children))


def all_nodes(root):
    out, todo = [], [root]
    while todo:
        n = todo.pop(0)
        out.append(n)
        todo = children_of(n) + todo
    return out


def well_formed(root):
    """-> list of problems"""
    from fparser.two.utils import walk, Base
    probs = []
    nodes = all_nodes(root)
    if len({id(n) for n in nodes}) != len(nodes):
        probs.append("a node object occurs more than once")
    if root.parent is not None:
        probs.append("root has a parent")
    for n in nodes:
        for c in children_of(n):
            if c.parent is not n:
                probs.append("parent of %s %r is %s, not the containing %s" % (type(c).__name__, str(c)[:30], type(c.parent).__name__, type(n).__name__))
        if n.get_root() is not root:
            probs.append("get_root() of %s is %s" % (type(n).__name__, type(n.get_root()).__name__))
    w = walk(root, Base)
    if [id(x) for x in w] != [id(x) for x in nodes]:
        probs.append("walk() does not visit every node exactly once in pre-order (%d vs %d nodes)" % (len(w), len(nodes)))
    return probs[:4]


def shape(n):
    from fparser.two.utils import Base
    if isinstance(n, Base):
        return (type(n).__name__, tuple(shape(c) for c in (n.children or [])))
    if isinstance(n, (list, tuple)):
        return tuple(shape(c) for c in n)
    return n


def modes():
    return [dict(ignore_comments=True), dict(ignore_comments=False), dict(ignore_comments=False, process_directives=True)]


def main(argv):
    tier = argv[argv.index("--tier") + 1] if "--tier" in argv else "quick"
    only = argv[argv.index("--only") + 1].split(",") if "--only" in argv else ["C01", "C07", "C08", "C09", "C10", "C11", "C13", "C14", "C18", "C20"]
    t0 = time.time()
    failures, samples, cases = [], [], 0

    def fail(oid, witness, observed):
        if sum(1 for f in failures if f["obligation"] == oid) < 60:
            failures.append(dict(obligation=oid, witness=witness, observed=observed))
    from fparser.two.utils import FortranSyntaxError
    programs = [(n, s, "f2003") for n, s in CATALOGUE.items()] + [(n, s, "f2008") for n, s in CATALOGUE.items()] + \
               [(n, s, "f2008") for n, s in F2008_EXTRA.items()]
    if set(only) & {"C10", "C18", "C01"}:
        if "C01" in only or "C10" in only or tier == "thorough":
            # one small program per statement of the statement corpus (shared with the C17 check)
            from checks import enum_registries as ER
            corpus = [("exec:%d" % i, "program p\n  %s\nend program p\n" % x) for i, x in enumerate(ER.EXEC)] + \
                     [("spec:%d" % i, "module m\n  %s\nend module m\n" % x) for i, x in enumerate(ER.SPEC)] + \
                     [("iface:%d" % i, "module m\ninterface g\n%s\nend interface g\nend module m\n" % x) for i, x in enumerate(ER.IFACE)] + \
                     [("format:%d" % i, "program p\n100 format(%s)\nend program p\n" % x) for i, x in enumerate(ER.FORMATS)]
            programs = programs + [(n, x, std) for n, x in corpus for std in ("f2003", "f2008")]
            if "C01" in only:
                # operand inflation (see bounded_tokens.inflated_programs): each operand in turn made a parenthesised expression,
                # a call or a literal with brackets - the printed text has to come back to the same tree
                from checks import bounded_tokens as BTK
                programs = programs + BTK.inflated_programs()[:: (1 if tier == "thorough" else 2)]
        previous = None
        for name, src, std in programs:
            for kw in (modes() if not name.startswith("inflated:") else [dict()]):
                cases += 1
                wit = dict(program=name, std=std, options=kw, source=src)
                try:
                    tree = parse(src, std, **kw)
                except BaseException as e:  # noqa
                    if ":" not in name:     # corpus statements need not be valid in the wrapper (that is C17's business)
                        fail("catalogue#parses", wit, "%s: %s" % (type(e).__name__, str(e)[:200]))
                    continue
                if "C10" in only:
                    for p in well_formed(tree):
                        fail("tree#well_formed", wit, p)
                    # trees of different parses are disjoint and an earlier tree stays well formed after later parses
                    if previous is not None:
                        ptree, pwit = previous
                        if {id(n) for n in all_nodes(ptree)} & {id(n) for n in all_nodes(tree)}:
                            fail("tree#parses_share_no_node", dict(first=pwit["program"], second=name, std=std, source=src), "a node of an earlier tree occurs in a later one")
                        for p in well_formed(ptree):
                            fail("tree#earlier_tree_stays_well_formed", dict(first=pwit["program"], second=name, std=std, source=pwit["source"]), p)
                    previous = (tree, wit)
                if "C18" in only:
                    for how, fn in (("deepcopy", copy.deepcopy), ("pickle", lambda t: pickle.loads(pickle.dumps(t)))):
                        try:
                            c = fn(tree)
                        except BaseException as e:  # noqa
                            fail("tree#%s.succeeds" % how, wit, "%s: %s" % (type(e).__name__, str(e)[:200]))
                            continue
                        if str(c) != str(tree):
                            fail("tree#%s.same_text" % how, wit, dict(copy=str(c)[:300]))
                        if shape(c) != shape(tree):
                            fail("tree#%s.same_structure" % how, wit, "structure differs")
                        for p in well_formed(c):
                            fail("tree#%s.copy_well_formed" % how, wit, p)
                        if {id(n) for n in all_nodes(c)} & {id(n) for n in all_nodes(tree)}:
                            fail("tree#%s.no_shared_node" % how, wit, "copy shares a node with the original")
                        # ... nor the reader items the statements keep (labels and construct names live there): changing the
                        # copy must leave the original as it was
                        oi = {id(getattr(n, "item", None)) for n in all_nodes(tree) if getattr(n, "item", None) is not None}
                        ci = {id(getattr(n, "item", None)) for n in all_nodes(c) if getattr(n, "item", None) is not None}
                        if oi & ci:
                            fail("tree#%s.no_shared_item" % how, wit, "a statement of the copy holds the same reader item object as the original")
                        # the items themselves come over as they are: same class (a preprocessor line stays a CppDirective, a
                        # comment a Comment), same text, span, label and construct name
                        def item_data(t):
                            out = []
                            for n in all_nodes(t):
                                it = getattr(n, "item", None)
                                if it is not None:
                                    out.append((type(n).__name__, type(it).__name__, getattr(it, "line", None), getattr(it, "comment", None),
                                                tuple(getattr(it, "span", ()) or ()), getattr(it, "label", None), getattr(it, "name", None),
                                                getattr(it, "strline", None), getattr(it, "is_f2py_directive", None)))
                            return out
                        da, db = item_data(tree), item_data(c)
                        if da != db:
                            diff = [(x, y) for x, y in zip(da, db) if x != y][:2]
                            fail("tree#%s.same_items" % how, wit, dict(first_differences=diff, count=[len(da), len(db)]))
                        before = str(tree)
                        for n in all_nodes(c):
                            it = getattr(n, "item", None)
                            if it is not None and hasattr(it, "label"):
                                if getattr(it, "label", None) is not None:
                                    it.label = it.label + 1000
                                if getattr(it, "name", None):
                                    it.name = it.name + "_copy"
                        if str(tree) != before:
                            fail("tree#%s.changing_the_copy_leaves_the_original" % how, wit, dict(before=before[:200], after=str(tree)[:200]))
                if "C01" in only:
                    text = str(tree)
                    try:
                        t2 = parse(text + "\n", std, **kw)
                    except BaseException as e:  # noqa
                        fail("roundtrip#regenerated_source_parses", wit, dict(text=text, error="%s: %s" % (type(e).__name__, str(e)[:200])))
                        continue
                    import re as _re
                    unname = lambda r: _re.sub(r"'block:\d+'", "'block:N'", r)      # noqa: E731  synthetic names of unnamed BLOCKs
                    if unname(repr(t2)) != unname(repr(tree)):
                        fail("roundtrip#same_tree", wit, dict(text=text))
                    if str(t2) != text:
                        fail("roundtrip#fixpoint_text", wit, dict(first=text, second=str(t2)))
                if len(samples) < 2:
                    samples.append(dict(program=name, std=std, options=kw, nodes=len(all_nodes(tree))))
    if "C09" in only:
        # the same source read again in the same process (with the same parser object, with a new one, after another
        # source) gives the same tree and text: whatever is kept between parses (memoised helpers, caches) does not show
        from fparser.two.parser import ParserFactory as _PF9
        from fparser.common.readfortran import FortranStringReader as _FSR9
        from checks import enum_registries as ER9
        import re as _re9
        unblock = lambda r: _re9.sub(r"'block:\d+'", "'block:N'", r)      # noqa: E731
        sources = [(n, t) for n, t in CATALOGUE.items() if n != "include_cpp"]
        sources += [("literal_then_code_then_comment", "program q\n  print *, 'n is', n  ! show the value\n  s = 'a''b' // t ! tail\n  call f('x', y) ! c\nend program q\n"),
                    ("continued_literals", "program q\n  print *, 'alpha &\n       &beta', k  ! first\n  msg = \"two ''kinds''\" // 'x' ! second\nend program q\n")]
        sources += [("exec:%d" % i, "program p\n  %s ! note %d\nend program p\n" % (st, i)) for i, st in enumerate(ER9.EXEC) if "\n" not in st][:: (1 if tier == "thorough" else 3)]
        for std in ("f2003", "f2008"):
            for kw in (dict(), dict(ignore_comments=False)):
                first = {}
                shared_parser = _PF9().create(std=std)
                for rnd in (0, 1, 2):
                    for name, src in sources:
                        cases += 1
                        parser = shared_parser if rnd == 1 else _PF9().create(std=std)
                        try:
                            t = parser(_FSR9(src, **kw))
                            got = (str(t), unblock(repr(t)))
                        except FortranSyntaxError as e:
                            got = ("FortranSyntaxError", str(e)[:80])
                        except BaseException as e:  # noqa
                            got = (type(e).__name__, str(e)[:80])
                        if name not in first:
                            first[name] = got
                        elif got != first[name]:
                            fail("history#same_source_same_result_on_every_parse", dict(program=name, std=std, options=kw, round=rnd, source=src),
                                 dict(first=first[name][0][:300], now=got[0][:300]))
    if "C10" in only:
        # trees built through include files: the same file included more than once (a COMMON header used by several
        # subprograms), nested includes, and the same file in two parses - every inclusion has its own nodes
        from fparser.common.readfortran import FortranFileReader as _FFR, FortranStringReader as _FSR
        from fparser.two.parser import ParserFactory as _PF
        with tempfile.TemporaryDirectory() as di:
            open(os.path.join(di, "blk.inc"), "w").write("  integer :: n, k(3)\n  common /blk/ n, k\n")
            open(os.path.join(di, "outer.inc"), "w").write("  real :: w\n  include 'blk.inc'\n")
            open(os.path.join(di, "body.inc"), "w").write("  n = n + 1\n  if (n > 2) then\n    k(1) = n\n  end if\n")
            progs = {
                "same_include_in_two_units": "subroutine a1\n  include 'blk.inc'\n  n = 1\nend subroutine a1\nsubroutine a2\n  include 'blk.inc'\n  n = 2\nend subroutine a2\n",
                "same_include_twice_in_one_unit": "subroutine b1\n  include 'blk.inc'\n  include 'body.inc'\n  include 'body.inc'\nend subroutine b1\n",
                "nested_and_direct": "subroutine c1\n  include 'outer.inc'\n  n = 1\nend subroutine c1\nsubroutine c2\n  include 'blk.inc'\n  include 'body.inc'\nend subroutine c2\n",
            }
            prev_nodes = None
            for pname, src in progs.items():
                open(os.path.join(di, pname + ".f90"), "w").write(src)
                for std in ("f2003", "f2008"):
                    for kind in ("string", "file"):
                        for kw in (dict(), dict(ignore_comments=False)):
                            cases += 1
                            wit = dict(program=pname, std=std, reader=kind, options=kw, source=src)
                            try:
                                rd = _FSR(src, include_dirs=[di], **kw) if kind == "string" else _FFR(os.path.join(di, pname + ".f90"), include_dirs=[di], **kw)
                                tree = _PF().create(std=std)(rd)
                            except BaseException as e:  # noqa
                                fail("catalogue#parses", wit, "%s: %s" % (type(e).__name__, str(e)[:200]))
                                continue
                            if "INCLUDE" in str(tree).upper():
                                fail("catalogue#parses", wit, "include not resolved")
                            for p in well_formed(tree):
                                fail("tree#well_formed", wit, p)
                            ids = {id(n) for n in all_nodes(tree)}
                            if prev_nodes is not None and ids & prev_nodes[0]:
                                fail("tree#parses_share_no_node", dict(first=prev_nodes[1], second=pname, std=std, source=src), "a node of an earlier tree occurs in a later one")
                            prev_nodes = (ids, pname, tree)
    if "C18" in only:
        # trees parsed through a file reader (the reader is a constructor argument of the root node)
        from fparser.common.readfortran import FortranFileReader
        from fparser.two.parser import ParserFactory
        with tempfile.TemporaryDirectory() as dd:
            fn = os.path.join(dd, "plain.f90")
            open(fn, "w").write(CATALOGUE["plain"])
            cases += 1
            tree = ParserFactory().create(std="f2003")(FortranFileReader(fn))
            for how, fnc in (("deepcopy", copy.deepcopy), ("pickle", lambda t: pickle.loads(pickle.dumps(t)))):
                try:
                    c = fnc(tree)
                    if str(c) != str(tree):
                        fail("tree#deepcopy.file_reader", dict(how=how, program="plain"), dict(copy=str(c)[:200]))
                except BaseException as e:  # noqa
                    fail("tree#deepcopy.file_reader", dict(how=how, program="plain"), "%s: %s" % (type(e).__name__, str(e)[:120]))
    if "C11" in only:
        # directive processing changes the node type of directive-form comments only (a comment is of directive form when
        # it is a full-line comment whose text starts with one of the sentinels; the forms are written here from the property)
        import re as _re3
        from fparser.two import Fortran2003 as F11
        from fparser.two.utils import walk as _walk11
        DIRECTIVE_FORM = _re3.compile(r"^(!\$[a-z]|c\$[a-z]|\*\$[a-z]|!dir\$|cdir\$|!gcc\$)", _re3.I)
        comments = ["!$omp parallel do", "!dir$ ivdep", "!gcc$ unroll 4", "!$acc loop", "! plain", "!!dir$ ivdep", "! was: !gcc$ unroll 4",
                    "! the old sentinel c$omp is not used", "!!$omp barrier", "! cdir$ novector", "!x *$omp", "!"]
        body = CATALOGUE["plain"].splitlines()
        for k, com in enumerate(comments):
            for pos in (1, 3, 5, len(body) - 1):
                src = "\n".join(body[:pos] + ["  " + com] + body[pos:]) + "\n"
                cases += 1
                try:
                    keep = parse(src, "f2003", ignore_comments=False)
                    proc = parse(src, "f2003", ignore_comments=False, process_directives=True)
                except BaseException as e:  # noqa
                    fail("comments#program_with_comment_parses", dict(comment=com, position=pos, source=src), "%s: %s" % (type(e).__name__, str(e)[:100]))
                    continue
                a = [(type(n).__name__, str(n).strip()) for n in _walk11(keep, (F11.Comment, F11.Directive)) if str(n).strip()]
                b = [(type(n).__name__, str(n).strip()) for n in _walk11(proc, (F11.Comment, F11.Directive)) if str(n).strip()]
                want = [("Directive" if DIRECTIVE_FORM.match(t) else "Comment", t) for _k, t in a]
                if [t for _k, t in a] != [com] or any(kk != "Comment" for kk, _t in a):
                    fail("comments#kept_once_as_comment", dict(comment=com, position=pos, source=src), dict(found=a))
                if b != want:
                    fail("comments#directive_node_exactly_for_directive_form", dict(comment=com, position=pos, source=src), dict(found=b, expected=want))
                if str(keep) != str(proc):
                    fail("comments#directive_processing_changes_node_types_only", dict(comment=com, position=pos, source=src), dict(keep=str(keep)[:300], processed=str(proc)[:300]))
        # a comment line between the lines of a continued statement: a directive exactly when it has the directive form
        for com in comments:
            src = "program p\n  real :: x\n  x = 1.0e-3 * &\n  %s\n       (i + 2) + &\n\n  %s\n       3\nend program p\n" % (com, com)
            cases += 1
            try:
                keep = parse(src, "f2003", ignore_comments=False)
                proc = parse(src, "f2003", ignore_comments=False, process_directives=True)
            except BaseException as e:  # noqa
                fail("comments#program_with_comment_parses", dict(comment=com, inside_continuation=True, source=src), "%s: %s" % (type(e).__name__, str(e)[:100]))
                continue
            a = [(type(n).__name__, str(n).strip()) for n in _walk11(keep, (F11.Comment, F11.Directive)) if str(n).strip()]
            b = [(type(n).__name__, str(n).strip()) for n in _walk11(proc, (F11.Comment, F11.Directive)) if str(n).strip()]
            want = [("Directive" if DIRECTIVE_FORM.match(com) else "Comment", com)] * 2
            if a != [("Comment", com)] * 2:
                fail("comments#kept_once_as_comment", dict(comment=com, inside_continuation=True, source=src), dict(found=a))
            if b != want:
                fail("comments#directive_node_exactly_for_directive_form", dict(comment=com, inside_continuation=True, source=src), dict(found=b, expected=want))
        # a trailing comment is never a directive, whatever its text (also with quote characters in it); the code in front of
        # it is quote-free here (a literal in front of it is the known finding KF-C11-D63)
        for com in ("!$omp atomic", "!$omp atomic  (don't reorder)", "!dir$ ivdep \"x\"", "! plain 'q'", "!$acc loop ! it's", "!gcc$ unroll 'n'"):
            for pos in range(len(body)):
                if "'" in body[pos] or '"' in body[pos]:
                    continue
                src = "\n".join(body[:pos] + [body[pos] + " " + com] + body[pos + 1:]) + "\n"
                cases += 1
                try:
                    proc = parse(src, "f2003", ignore_comments=False, process_directives=True)
                    keep = parse(src, "f2003", ignore_comments=False)
                except BaseException as e:  # noqa
                    fail("comments#program_with_comment_parses", dict(comment=com, position=pos, trailing=True, source=src), "%s: %s" % (type(e).__name__, str(e)[:100]))
                    continue
                b = [(type(n).__name__, str(n).strip()) for n in _walk11(proc, (F11.Comment, F11.Directive)) if str(n).strip()]
                a = [(type(n).__name__, str(n).strip()) for n in _walk11(keep, (F11.Comment, F11.Directive)) if str(n).strip()]
                if b != [("Comment", com)] or a != [("Comment", com)]:
                    fail("comments#trailing_comment_is_never_a_directive", dict(comment=com, position=pos, source=src), dict(processed=b, kept=a))
        # every comment exactly once, in order, in the tree and in the regenerated text: comment lines before, between and
        # after the statements and a trailing comment on every statement, for sequences of program units (also a main program
        # without PROGRAM statement, in every position of the sequence)
        units = {
            "named": ["program p", "  integer :: i", "  i = 1", "end program p"],
            "anonymous": ["integer :: i", "i = 1", "end"],
            "subroutine": ["subroutine s(a)", "  real :: a", "  a = 1", "end subroutine s"],
            "module": ["module m", "  integer :: k", "contains", "  subroutine t", "  end subroutine t", "end module m"],
        }
        orders = [("named",), ("anonymous",), ("anonymous", "subroutine"), ("subroutine", "anonymous"), ("module", "anonymous", "subroutine"),
                  ("named", "subroutine"), ("module", "subroutine", "named")]
        for order in orders:
            for style in ("trailing", "lines", "both"):
                lines, want = [], []
                n = 0
                for u in order:
                    for l in units[u]:
                        if style in ("lines", "both"):
                            n += 1
                            lines.append("! c%d before" % n)
                            want.append("! c%d before" % n)
                        if style in ("trailing", "both"):
                            n += 1
                            lines.append(l + " ! c%d on" % n)
                            want.append("! c%d on" % n)
                        else:
                            lines.append(l)
                n += 1
                lines.append("! c%d last" % n)
                want.append("! c%d last" % n)
                src = "\n".join(lines) + "\n"
                for std in ("f2003", "f2008"):
                    for pd in (False, True):
                        cases += 1
                        try:
                            t = parse(src, std, ignore_comments=False, process_directives=pd)
                        except BaseException as e:  # noqa
                            fail("comments#program_with_comment_parses", dict(units=list(order), style=style, source=src, std=std), "%s: %s" % (type(e).__name__, str(e)[:100]))
                            continue
                        got = [str(c).strip() for c in _walk11(t, F11.Comment) if str(c).strip()]
                        printed = [l[l.index("!"):].strip() for l in str(t).splitlines() if "!" in l]
                        if got != want:
                            fail("comments#every_comment_once_in_order_in_the_tree", dict(units=list(order), style=style, source=src, std=std, process_directives=pd),
                                 dict(missing=[c for c in want if c not in got][:5], found=len(got), expected=len(want)))
                        if printed != want:
                            fail("comments#every_comment_once_in_order_in_the_text", dict(units=list(order), style=style, source=src, std=std, process_directives=pd),
                                 dict(missing=[c for c in want if c not in printed][:5], found=len(printed), expected=len(want)))
    if "C08" in only:
        base = CATALOGUE["plain"] + CATALOGUE["module"] + "subroutine k(w, n)\n  real, dimension(n) :: w\n  integer, intent(in) :: n\n  associate (a => w(1), b => (w(2) + 1.0))\n    a = b\n  end associate\n  open(unit=10, file='x')\n  nullify(p)\nend subroutine k\n"
        import re as _re2
        from checks import enum_registries as ER2
        more = ["do while (i < n)\n  i = i + 1\nend do", "do while ((ok) .and. (.not. done))\n  i = 1\nend do", "if (a(1) > (b + c)) then\n  x = 1\nend if",
                "select case (f(i))\ncase (1)\n  x = 1\nend select", "where (v(1:3) > (0))\n  v = 1\nend where", "forall (i = 1:n, a(i) > 0) a(i) = 1",
                "x = ((a + b) * (c - d)) ** (e)", "print '(a)', f(g(1), (2))", "read (unit=5, fmt='(i3)') (v(i), i = 1, 3)"]
        mods = ["interface operator(+)\n  module procedure f\nend interface", "use m2, only: operator(.eq.), assignment(=)",
                "procedure(real), pointer :: pp => null()", "type, extends(base) :: t2\n  integer :: k\nend type t2", "integer, dimension(size(a, 1)) :: b"]
        # statements joined by ';' (the reader splits them before the parser sees them)
        semi = ("program sc\n  real :: a, b(2)\n  a = (1.0 + a); b(1) = a\n  b(2) = a * (a + 1); a = f(b(1), (a))\n  if (a > 0) then; b(2) = (a); end if\n"
                "  call s(a, (b(1))); call t((a))\nend program sc\n")
        bases = [("base", base), ("semicolons", semi)] + [("exec:%d" % i, "program p\n  %s\nend program p\n" % x) for i, x in enumerate(ER2.EXEC + more) if "(" in x] + \
                [("spec:%d" % i, "module m\n  %s\nend module m\n" % x) for i, x in enumerate(ER2.SPEC + mods) if "(" in x]
        for bname, btext in bases:
            lines = btext.splitlines()
            okstd = []
            for std in ("f2003", "f2008"):
                try:
                    parse(btext, std)
                    okstd.append(std)
                except BaseException:  # noqa
                    pass
            for li, line in enumerate(lines):
                if "(" not in line and ")" not in line:
                    continue
                variants = set()
                for pos, ch in enumerate(line):
                    if ch in "()":
                        variants.add(line[:pos] + line[pos + 1:])
                        variants.add(line[:pos] + ch + line[pos:])
                for v in sorted(variants):
                    # parentheses inside character context do not count
                    src = "\n".join(lines[:li] + [v] + lines[li + 1:]) + "\n"
                    outside = "".join(seg for k, seg in enumerate(v.replace('"', "'").split("'")) if k % 2 == 0)
                    if outside.count("(") == outside.count(")"):
                        continue
                    cases += 1
                    # the syntactic place of the edit (used to identify known findings by their site)
                    low = v.strip().lower()
                    place = "other"
                    if _re2.search(r"intent\s*\(\s*(in|out|inout|in\s+out)\s*\)\s*\)", low):
                        place = "surplus_parenthesis_after_intent"
                    elif _re2.search(r"^(integer|real|complex|logical|character|double\s*precision|type\s+is\s*\(\s*(integer|real|complex|logical|character))\s*\)?\s*\)", low):
                        place = "one_character_kind_selector"        # '<intrinsic type> )': the text after the type name is the single character ')'
                    elif _re2.search(r"\b(operator|assignment)\s*\(", low) or _re2.search(r"\b(operator|assignment)\s*=", low):
                        place = "generic_spec"
                    elif low.startswith("implicit"):
                        place = "implicit_spec"
                    for std in okstd:
                        try:
                            parse(src, std)
                            fail("parser#unbalanced_parentheses_rejected", dict(std=std, program=bname, line=v.strip(), place=place, source=src), "accepted")
                        except FortranSyntaxError:
                            pass
                        except BaseException as e:  # noqa
                            fail("parser#unbalanced_parentheses_rejected", dict(std=std, program=bname, line=v.strip(), place=place, source=src), "raised %s instead of FortranSyntaxError" % type(e).__name__)
        # structural deletions: removing the opening or the closing line of an inner construct (or the terminating
        # statement of a labelled DO) leaves an ill-nested program, which must be rejected
        import re as _re2
        OPEN = _re2.compile(r"^\s*(\d+\s+)?(\w+\s*:\s*)?(if\s*\(.*\)\s*then|do\b(?!uble)|select\s+(case|type)|where\s*\(.*\)\s*$|forall\s*\(.*\)\s*$|associate\s*\(|block\s*$|critical\s*$|"
                            r"type\s*(,.*)?(::)?\s*\w+\s*$|interface\b|subroutine\b|function\b)", _re2.I)
        CLOSE = _re2.compile(r"^\s*(\d+\s+)?end\s*(if|do|select|where|forall|associate|block|critical|type|interface|subroutine|function)\b", _re2.I)
        nested = dict(CATALOGUE)
        nested.update(F2008_EXTRA)
        nested["constructs"] = ("module c\n  interface g\n    module procedure s\n  end interface g\ncontains\n  subroutine s(a, n)\n    integer :: n, i\n    real :: a(n)\n"
                                "    outer: do i = 1, n\n      if (a(i) > 0) then\n        where (a > 1)\n          a = 1\n        end where\n      else\n        forall (i = 1:n)\n          a(i) = 0\n"
                                "        end forall\n      end if\n    end do outer\n    associate (b => a(1))\n      b = 2\n    end associate\n    select case (n)\n    case (1)\n      a = 3\n    end select\n"
                                "    do 30 i = 1, n\n      a(i) = 4\n30  continue\n    do 40 i = 1, n\n40  a(i) = 5\n  end subroutine s\nend module c\n")
        nested["named"] = CATALOGUE["named_constructs"]
        # an END statement whose construct name differs from the opening one (or is dropped where the opener has one)
        for name in ("named",):
            lines = nested[name].splitlines()
            for li, line in enumerate(lines):
                m = _re2.match(r"^(\s*end\s*(?:if|do|select|where|associate|forall)\s+)(\w+)\s*$", line, _re2.I)
                if not m:
                    continue
                for newname in (m.group(2) + "x", "zz", ""):
                    src = "\n".join(lines[:li] + [(m.group(1) + newname).rstrip()] + lines[li + 1:]) + "\n"
                    cases += 1
                    for std in ("f2003", "f2008"):
                        try:
                            t = parse(src, std)
                            fail("parser#end_name_must_agree", dict(program=name, std=std, line=(m.group(1) + newname).strip(), source=src), dict(accepted_as=str(t)[:200]))
                        except FortranSyntaxError:
                            pass
                        except SystemExit:
                            fail("parser#end_name_must_agree", dict(program=name, std=std, line=(m.group(1) + newname).strip(), exception="SystemExit", source=src), "process exit requested")
                        except BaseException as e:  # noqa
                            fail("parser#end_name_must_agree", dict(program=name, std=std, line=(m.group(1) + newname).strip(), source=src), "raised %s" % type(e).__name__)
        for name, text in nested.items():
            lines = text.splitlines()
            std = "f2008" if name in F2008_EXTRA else "f2003"
            try:
                parse(text, std)
            except BaseException:  # noqa
                continue
            labels = {m.group(1) for l in lines for m in [_re2.match(r"^\s*do\s+(\d+)\b", l, _re2.I)] if m}
            for li, line in enumerate(lines):
                m_lab = _re2.match(r"^\s*(\d+)\s", line)
                is_term = bool(m_lab and m_lab.group(1) in labels)
                if not (OPEN.match(line) or CLOSE.match(line) or is_term):
                    continue
                if _re2.match(r"^\s*do\s+\d+\b", line, _re2.I):
                    continue            # a labelled DO statement: without it its terminator is an ordinary labelled statement
                if li == 0 or li == len(lines) - 1:
                    continue            # the outermost unit: removing a PROGRAM statement can leave a valid program
                if _re2.match(r"^\s*(subroutine|function)\b", line, _re2.I) and not any(l.strip().lower() == "contains" for l in lines[:li]) \
                        and not any(_re2.match(r"^\s*interface\b", l, _re2.I) for l in lines[:li]):
                    continue            # first line of a further top-level unit
                if _re2.match(r"^\s*end\s*(subroutine|function)\b", line, _re2.I) and li + 1 < len(lines) \
                        and _re2.match(r"^\s*(subroutine|function|program|module)\b", lines[li + 1], _re2.I):
                    continue            # END of a top-level unit followed by another unit
                src = "\n".join(lines[:li] + lines[li + 1:]) + "\n"
                cases += 1
                try:
                    t = parse(src, std)
                    fail("parser#ill_nested_rejected", dict(program=name, std=std, deleted_line=line.strip(), source=src), dict(accepted_as=str(t)[:300]))
                except FortranSyntaxError:
                    pass
                except SystemExit:
                    fail("parser#ill_nested_rejected", dict(program=name, std=std, deleted_line=line.strip(), exception="SystemExit", source=src), "process exit requested")
                except BaseException as e:  # noqa
                    fail("parser#ill_nested_rejected", dict(program=name, std=std, deleted_line=line.strip(), source=src), "raised %s instead of FortranSyntaxError" % type(e).__name__)
            # surplus openers / closers at every boundary inside the outermost unit
            surplus = ["if (n > 0) then", "do while (n > 0)", "q: do", "associate (q => n)", "select case (n)", "where (a > 0)", "forall (i = 1:n)",
                       "end if", "end do", "end associate", "end select", "end where", "end forall"]
            for li in range(1, len(lines)):
                if lines[li - 1].rstrip().endswith("&"):
                    continue
                for k, extra in enumerate(surplus):
                    if tier != "thorough" and (li + k) % 4:
                        continue
                    src = "\n".join(lines[:li] + ["  " + extra] + lines[li:]) + "\n"
                    cases += 1
                    # is the insertion point inside the range of a labelled DO (between the DO statement and its terminator)?
                    open_labels = []
                    for l in lines[:li]:
                        m1 = _re2.match(r"^\s*do\s+(\d+)\b", l, _re2.I)
                        m2 = _re2.match(r"^\s*(\d+)\s", l)
                        if m1:
                            open_labels.append(m1.group(1))
                        elif m2:
                            open_labels = [x for x in open_labels if x != m2.group(1)]
                    try:
                        t = parse(src, std)
                        fail("parser#ill_nested_rejected", dict(program=name, std=std, inserted_line=extra, before_line=lines[li].strip(),
                                                                inside_labelled_do=bool(open_labels), source=src), dict(accepted_as=str(t)[:300]))
                    except FortranSyntaxError:
                        pass
                    except SystemExit:
                        fail("parser#ill_nested_rejected", dict(program=name, std=std, inserted_line=extra, exception="SystemExit", source=src), "process exit requested")
                    except BaseException as e:  # noqa
                        fail("parser#ill_nested_rejected", dict(program=name, std=std, inserted_line=extra, source=src), "raised %s instead of FortranSyntaxError" % type(e).__name__)
    if "C07" in only:
        for name in ("plain", "module", "select_where", "io_format", "two_units", "named_constructs", "anonymous_main"):
            lines = CATALOGUE[name].splitlines()
            for li in range(len(lines)):
                if lines[li].strip().lower().startswith(("end", "contains", "else", "case", "elsewhere")) or li == 0:
                    continue
                # lines are separated by "\n" only: other control characters (form feed page breaks of legacy sources,
                # vertical tab, NEL, unicode separators) inside earlier lines must not shift the reported position
                decorations = [[], ["\x0c", "  ! page\x0bbreak \x1c \x85 \u2028 here"],
                               ["  integer :: zz1, &", "  ! comment inside the continuation", "", "     zz2, &", "", "     zz3"]]
                # a continued offending statement followed by comment lines: the location is the line the statement ends on
                for tail in ([], ["  ! a comment after the statement", "! another"], ["", ""], ["", "  ! a comment after a blank line", ""]):
                    glines = ["  @@ not &", "     fortran &", "     at all @@"]
                    src = "\n".join(lines[:li] + glines + tail + lines[li + 1:]) + "\n"
                    cases += 1
                    lineno = li + len(glines)
                    for ckw in (dict(), dict(ignore_comments=False)):
                        try:
                            parse(src, "f2003", **ckw)
                            fail("error#garbage_rejected", dict(source=src), "accepted")
                        except FortranSyntaxError as e:
                            want = "at line %d\n>>>%s\n" % (lineno, glines[-1])
                            if not str(e).startswith(want):
                                fail("error#names_offending_line", dict(source=src, line=lineno, continued=True, lines_after=tail, options=ckw), dict(message=str(e)[:120], expected_prefix=want))
                        except BaseException as e:  # noqa
                            fail("error#garbage_rejected", dict(source=src), "raised %s" % type(e).__name__)
                # blank lines (and a cpp directive at the top of the file) around the offending statement do not move the location
                for head_lines, after, before in (([], ["", ""], []), (["#define VERIF 1"], ["", "", ""], []), (["! leading comment", ""], [""], []),
                                                  ([], [], ["#define CHECK(a) call check(a) \\", ""]), ([], [""], ["#define TWO(a) a + \\", "   a", ""])):
                    src = "\n".join(head_lines + lines[:li] + before + ["  @@ not fortran @@"] + after + lines[li + 1:]) + "\n"
                    cases += 1
                    lineno = len(head_lines) + li + len(before) + 1
                    for kw in (dict(), dict(ignore_comments=False)):
                        try:
                            parse(src, "f2003", **kw)
                            fail("error#garbage_rejected", dict(source=src), "accepted")
                        except FortranSyntaxError as e:
                            want = "at line %d\n>>>  @@ not fortran @@\n" % lineno
                            if not str(e).startswith(want):
                                fail("error#names_offending_line", dict(source=src, line=lineno, blank_lines_after=len(after), lines_before=before, options=kw), dict(message=str(e)[:120], expected_prefix=want))
                        except BaseException as e:  # noqa
                            fail("error#garbage_rejected", dict(source=src), "raised %s" % type(e).__name__)
                # the offending statement carries a trailing comment of its own and is followed by comment lines
                for inline in (" ! derived from x", "   !", " ! it's here"):
                    for after in ([], ["  ! needed further down", "! more"], ["", "  ! after a blank line"], ["  ! one"]):
                        gl = "  @@ not fortran @@" + inline
                        src = "\n".join(lines[:li] + [gl] + after + lines[li + 1:]) + "\n"
                        cases += 1
                        for kw in (dict(), dict(ignore_comments=False)):
                            try:
                                parse(src, "f2003", **kw)
                                fail("error#garbage_rejected", dict(source=src), "accepted")
                            except FortranSyntaxError as e:
                                want = "at line %d\n>>>%s\n" % (li + 1, gl)
                                if not str(e).startswith(want):
                                    fail("error#names_offending_line", dict(source=src, line=li + 1, inline_comment=inline, lines_after=after, options=kw), dict(message=str(e)[:120], expected_prefix=want))
                            except BaseException as e:  # noqa
                                fail("error#garbage_rejected", dict(source=src), "raised %s" % type(e).__name__)
                for garbage in ("@@ not fortran @@", "= = =", "this isn't fortran", "print *, \"unterminated"):
                    for deco in decorations:
                        src = "\n".join(lines[:1] + deco + lines[1:li] + ["  " + garbage] + lines[li + 1:]) + "\n"
                        cases += 1
                        lineno = li + 1 + len(deco)
                        try:
                            parse(src, "f2003")
                            fail("error#garbage_rejected", dict(source=src), "accepted")
                        except FortranSyntaxError as e:
                            msg = str(e)
                            want = "at line %d\n>>>  %s\n" % (lineno, garbage)
                            if not msg.startswith(want):
                                fail("error#names_offending_line", dict(source=src, line=lineno), dict(message=msg[:120], expected_prefix=want))
                        except BaseException as e:  # noqa
                            fail("error#garbage_rejected", dict(source=src), "raised %s" % type(e).__name__)
    if "C14" in only:
        # a directive in front of a main program without PROGRAM statement stays where it was
        for d in ("#ifdef X", "#define N 3"):
            src = d + "\n x = 1\nend\n"
            cases += 1
            try:
                txt = str(parse(src, "f2003"))
                if txt.splitlines()[0].strip() != d:
                    fail("cpp#directive_before_anonymous_main_program", dict(source=src), dict(printed=txt))
            except BaseException as e:  # noqa
                fail("cpp#directive_before_anonymous_main_program", dict(source=src), "%s: %s" % (type(e).__name__, str(e)[:120]))
        directives = ["#define X a;b", "#ifdef X", "#ifndef Y", "#if defined(A) && B", "#elif C", "#else", "#endif", "#include \"f.h\"", "#define N 3", "#undef N",
                      "#line 7 \"a.f90\"", "#error stop here", "#warning careful", "#", "# 12 \"x.f90\" 2", "#define LONG a + \\\n   b"]
        from fparser.two import C99Preprocessor as C99
        from fparser.two.utils import walk
        import re as _re14

        def payload(text):
            """a directive as (keyword, words of the rest, blank after the keyword?): backslash-newlines joined, runs of
            blanks collapsed - a blank between two tokens of the rest is significant ('#define G (x)' is not 'G(x)')"""
            t = text.replace("\\\n", " ").strip()
            m = _re14.match(r"#\s*([A-Za-z]*)(\s*)(.*)$", t, _re14.S)
            return (m.group(1).lower(), m.group(3).split(), bool(m.group(2)) or not m.group(3))

        def same_payload(printed, source):
            a, b = payload(printed), payload(source)
            # the printed form may add the blank after the keyword, it may not drop one that the source has
            return a[0] == b[0] and a[1] == b[1] and (a[2] or not b[2])
        # every kind of construct after an executable statement (a directive in front of it is then attached to the construct)
        c14_programs = dict((n, CATALOGUE[n]) for n in ("plain", "module", "select_where", "labelled_do_action_term", "labelled_do_continue", "named_constructs"))
        c14_programs["constructs_after_statements"] = (
            "subroutine cs(a, n, k, p)\n  integer :: n, k\n  real :: a(n)\n  class(*) :: p\n  k = 0\n  if (k > 1) then\n    k = 1\n  else if (k < 0) then\n    k = 2\n  else\n    k = 3\n  end if\n"
            "  k = 4\n  select case (k)\n  case (1)\n    k = 5\n  case default\n    k = 6\n  end select\n  k = 7\n  where (a > 0)\n    a = 1\n  elsewhere\n    a = 2\n  end where\n"
            "  k = 8\n  do i = 1, n\n    a(i) = 0\n  end do\n  k = 9\n  forall (i = 1:n)\n    a(i) = 1\n  end forall\n  k = 10\n  associate (q => a(1))\n    q = 2\n  end associate\n"
            "  k = 11\n  select type (p)\n  type is (integer)\n    k = 12\n  class default\n    k = 13\n  end select\n  k = 14\n  do while (k > 0)\n    k = k - 1\n  end do\n  k = 15\nend subroutine cs\n")
        for name in c14_programs:
            lines = c14_programs[name].splitlines()
            base_tree = parse(c14_programs[name], "f2003")
            for pos in range(0, len(lines) + 1):
                # text after the keyword of #else / #endif (the usual '#endif /* MACRO */') belongs to the directive
                trailing = ["#else /* !HAVE_MPI */", "#endif /* HAVE_MPI */", "#endif // X", "#else  ! not X",
                            # a payload that starts with a bracket or a star; a blank that separates a macro name from '('
                            "#if (defined(A) && defined(B)) || C > 1", "#elif (LIMIT > 5)", "#error (n) must not be used here", "#warning *** check the scaling ***", "#define G (x)", "#define H(x) (x)",
                            # no blank between the keyword and what follows it
                            "#if(defined(X))", "#if!defined(X)", "#elif(A)", "#include\"f.h\"", "#ifdef X", "#  if defined(Y)", "#define F(a,b) a+b",
                            # followed by a blank line; the last line of the macro ending in a backslash (which joins only that blank line)
                            # forms that a coverage run of C99Preprocessor.py showed the quick tier never printed
                            "#line 7 \"a.f90\"", "# 12 \"x.f90\" 2", "#error", "#warning", "#define FLAG", "#", "#define EMPTY()", "#define TWOARGS(a, b)", "#undef FLAG",
                            "#define G 1\n", "#define CHECK(a) call check(a) \\\n", "#define TWO(a) a + \\\n   a\n"]
                for d in directives[:: (1 if tier == "thorough" else 3)] + ([directives[-1]] if tier != "thorough" else []) + (trailing if tier == "thorough" or pos % 3 == 1 else []):
                    src = "\n".join(lines[:pos] + [d] + lines[pos:]) + "\n"
                    cases += 1
                    try:
                        t = parse(src, "f2003")
                    except BaseException as e:  # noqa
                        fail("cpp#directive_does_not_disturb_parse", dict(program=name, position=pos, directive=d, source=src), "%s: %s" % (type(e).__name__, str(e)[:120]))
                        continue
                    cpp_nodes = [n for n in walk(t) if type(n).__module__ == C99.__name__ and type(n).__name__.endswith("_Stmt")]
                    if len(cpp_nodes) != 1:
                        fail("cpp#one_node_per_directive", dict(program=name, position=pos, directive=d, source=src), dict(nodes=[type(n).__name__ for n in cpp_nodes]))
                        continue
                    if not same_payload(str(cpp_nodes[0]), d):
                        fail("cpp#payload_intact", dict(program=name, position=pos, directive=d, source=src), dict(printed=str(cpp_nodes[0]), directive=d))
                    shown = [l.strip() for l in str(t).splitlines()].count(str(cpp_nodes[0]).strip().splitlines()[0])
                    if shown != 1:
                        fail("cpp#directive_printed_once", dict(program=name, position=pos, directive=d, source=src), dict(times=shown, printed=str(t)[:600]))
                    rest = [l.strip() for l in str(t).splitlines() if l.strip() != str(cpp_nodes[0]).strip()]
                    if rest != [l.strip() for l in str(base_tree).splitlines()]:
                        fail("cpp#rest_of_tree_unchanged", dict(program=name, position=pos, directive=d, source=src), dict(printed=str(t)[:400]))
        # fixed form (set explicitly, non-strict and strict): directives after statements, at the top and in a row
        from fparser.common.readfortran import FortranStringReader as _FSR14
        from fparser.common.sourceinfo import FortranFormat as _FF14
        from fparser.two.parser import ParserFactory as _PF14
        fbody = ["      program fx", "      integer i", "      i = 1", "      if (i .gt. 0) then", "        i = 2", "      end if", "      end program fx"]
        fdirs = ["#if !defined(X)", "#if !X", "#ifdef X", "#endif", "#define N 3", "#include \"f.h\"", "#else", "#elif !defined(Y) && Z", "#undef N"]

        def fparse(lines, strict, **kw):
            rd = _FSR14("\n".join(lines) + "\n", **kw)
            rd.set_format(_FF14(False, strict))
            return _PF14().create(std="f2003")(rd)
        for strict in (False, True):
            try:
                fbase = str(fparse(fbody, strict))
            except BaseException as e:  # noqa
                fail("cpp#fixed_form_program_parses", dict(strict=strict), "%s: %s" % (type(e).__name__, str(e)[:100]))
                continue
            for d in fdirs:
                for pos in range(0, len(fbody) + 1):
                    for kw in (dict(), dict(ignore_comments=False)):
                        cases += 1
                        flines = fbody[:pos] + [d] + fbody[pos:]
                        try:
                            t = fparse(flines, strict, **kw)
                        except BaseException as e:  # noqa
                            fail("cpp#directive_does_not_disturb_parse", dict(form="fixed", strict=strict, position=pos, directive=d, options=kw, source="\n".join(flines)), "%s: %s" % (type(e).__name__, str(e)[:120]))
                            continue
                        cpp_nodes = [n for n in walk(t) if type(n).__module__ == C99.__name__ and type(n).__name__.endswith("_Stmt")]
                        if len(cpp_nodes) != 1 or not same_payload(str(cpp_nodes[0]), d):
                            fail("cpp#one_node_per_directive", dict(form="fixed", strict=strict, position=pos, directive=d, options=kw, source="\n".join(flines)), dict(nodes=[str(n) for n in cpp_nodes]))
                            continue
                        rest = [l.strip() for l in str(t).splitlines() if l.strip() != str(cpp_nodes[0]).strip()]
                        if rest != [l.strip() for l in fbase.splitlines()]:
                            fail("cpp#rest_of_tree_unchanged", dict(form="fixed", strict=strict, position=pos, directive=d, options=kw, source="\n".join(flines)), dict(printed=str(t)[:300]))
        # comments retained: directives placed among comments (before, between, after) leave every other node where it was
        def signature(tree):
            out = []

            def rec(node, depth):
                if type(node).__module__ == C99.__name__:
                    return
                out.append((depth, type(node).__name__, str(node) if not getattr(node, "content", None) and isinstance(node, Base_) and not any(isinstance(c, Base_) for c in node.children) else ""))
                for c in getattr(node, "children", []) or []:
                    if isinstance(c, Base_):
                        rec(c, depth + 1)
            rec(tree, 0)
            return out
        from fparser.two.utils import Base as Base_
        commented = {
            "comments": CATALOGUE["comments"],
            "commented_plain": "\n".join(x for l in CATALOGUE["plain"].splitlines() for x in ("  ! about: " + l.strip().replace("'", ""), l)) + "\n! trailing\n",
            "commented_module": "! header\n" + "\n".join(x for l in CATALOGUE["module"].splitlines() for x in (l, "  ! after: " + l.strip())) + "\n",
        }
        groups = [["#ifdef X"], ["#define N 3", "#undef N"], ["#ifdef X", "  ! between the directives", "#endif"]]
        for name, text in commented.items():
            lines = text.splitlines()
            try:
                base_sig = signature(parse(text, "f2003", ignore_comments=False))
            except BaseException as e:  # noqa
                fail("cpp#commented_base_parses", dict(program=name, source=text), "%s: %s" % (type(e).__name__, str(e)[:120]))
                continue
            for pos in range(0, len(lines) + 1):
                prev = [l for l in lines[:pos] if l.strip() and not l.lstrip().startswith("!")]
                if prev and prev[-1].split("!")[0].rstrip().endswith("&"):
                    continue            # inside a continued statement (comment lines may sit between its parts)
                for grp in (groups if tier == "thorough" else groups[pos % 3:pos % 3 + 1]):
                    src = "\n".join(lines[:pos] + grp + lines[pos:]) + "\n"
                    cases += 1
                    try:
                        t = parse(src, "f2003", ignore_comments=False)
                    except BaseException as e:  # noqa
                        fail("cpp#directive_among_comments_does_not_disturb_parse", dict(program=name, position=pos, directives=grp, source=src),
                             "%s: %s" % (type(e).__name__, str(e)[:120]))
                        continue
                    cpp_nodes = [n for n in walk(t) if type(n).__module__ == C99.__name__ and type(n).__name__.endswith("_Stmt")]
                    want_d = [g for g in grp if g.lstrip().startswith("#")]
                    if [payload(str(n)) for n in cpp_nodes] != [payload(g) for g in want_d]:
                        fail("cpp#directives_in_order_among_comments", dict(program=name, position=pos, directives=grp, source=src), dict(nodes=[str(n) for n in cpp_nodes]))
                        continue
                    sig = signature(t)
                    extra = [g for g in grp if not g.lstrip().startswith("#")]
                    if extra:
                        sig = [x for x in sig if not (x[1] == "Comment" and x[2].strip() == extra[0].strip())]
                    if sig != base_sig:
                        k = next((i for i, (a, b) in enumerate(zip(sig, base_sig)) if a != b), min(len(sig), len(base_sig)))
                        fail("cpp#rest_of_tree_unchanged_with_comments", dict(program=name, position=pos, directives=grp, source=src),
                             dict(first_difference=dict(got=sig[k] if k < len(sig) else None, expected=base_sig[k] if k < len(base_sig) else None)))
    if "C13" in only:
        from fparser.common.readfortran import FortranFileReader, FortranStringReader
        from fparser.two.parser import ParserFactory
        body = ["  integer :: i", "  i = 1", "  if (i > 0) then", "    i = 2", "  end if"]
        full = "program p\n" + "\n".join(body) + "\nend program p\n"
        want = str(parse(full))
        with tempfile.TemporaryDirectory() as d1, tempfile.TemporaryDirectory() as d2:
            for a in range(0, len(body)):
                for b in range(a + 1, len(body) + 1):
                    if b - a in (3,) and a == 2 or b <= 2 or a >= 2 and not (a == 2 and b == 5):
                        pass
                    inc = body[a:b]
                    # only whole constructs may move (IF block as a whole or single statements outside it)
                    if any(l.strip().startswith(("if", "end if")) for l in inc) and not (a <= 2 and b == 5):
                        continue
                    open(os.path.join(d2, "part.inc"), "w").write("\n".join(inc) + "\n")
                    open(os.path.join(d1, "part.inc"), "w").write("  this is the wrong file\n")
                    main = "program p\n" + "\n".join(body[:a] + ["  include 'part.inc'"] + body[b:]) + "\nend program p\n"
                    open(os.path.join(d1, "main.f90"), "w").write(main)
                    cases += 1
                    for kind in ("file", "string"):
                        try:
                            rd = FortranFileReader(os.path.join(d1, "main.f90"), include_dirs=[d2, d1]) if kind == "file" else FortranStringReader(main, include_dirs=[d2, d1])
                            got = str(ParserFactory().create(std="f2003")(rd))
                        except BaseException as e:  # noqa
                            fail("include#transparent", dict(main=main, include=inc, reader=kind), "%s: %s" % (type(e).__name__, str(e)[:150]))
                            continue
                        if got != want:
                            fail("include#transparent", dict(main=main, include=inc, reader=kind), dict(printed=got))
            # spellings of the INCLUDE line (letter case, quote character, blanks): all are include lines
            open(os.path.join(d2, "part.inc"), "w").write(body[1] + "\n")
            for spelling in ("include 'part.inc'", "INCLUDE 'part.inc'", "Include 'part.inc'", "inCLude \"part.inc\"", "iNCLUDE'part.inc'",
                             "include   \"part.inc\"   ", "   INCLUDE\t'part.inc'"):
                main = "program p\n" + "\n".join(body[:1] + [spelling] + body[2:]) + "\nend program p\n"
                open(os.path.join(d1, "main.f90"), "w").write(main)
                cases += 1
                for kind in ("file", "string"):
                    try:
                        rd = FortranFileReader(os.path.join(d1, "main.f90"), include_dirs=[d2, d1]) if kind == "file" else FortranStringReader(main, include_dirs=[d2, d1])
                        got = str(ParserFactory().create(std="f2003")(rd))
                    except BaseException as e:  # noqa
                        got = "%s: %s" % (type(e).__name__, str(e)[:150])
                    if got != want:
                        fail("include#every_spelling_of_the_include_line", dict(main=main, include=[body[1]], reader=kind, spelling=spelling), dict(printed=got))
            # nested includes: an include line as the first, a middle or the last line of an included file, the files in free
            # or in fixed form (a fixed-form reader looks one line ahead), the innermost file with several statements
            flat = "program p\n  integer :: a, b, c\n  a = 1\n  b = 2\n  b = b + 1\n  b = b + 2\n  c = 3\nend program p\n"
            want_nested = str(parse(flat))
            for form, pad in (("free", "  "), ("fixed", "      ")):
                inner = "".join(pad + l + "\n" for l in ("b = 2", "b = b + 1", "b = b + 2"))
                for place, outer_lines, main_body in (
                        ("last", ["a = 1", "include 'inner.inc'"], ["include 'outer.inc'", "c = 3"]),
                        ("first", ["include 'inner.inc'", "c = 3"], ["a = 1", "include 'outer.inc'"]),
                        ("middle", ["a = 1", "include 'inner.inc'", "c = 3"], ["include 'outer.inc'"]),
                        ("only", ["include 'inner.inc'"], ["a = 1", "include 'outer.inc'", "c = 3"])):
                    open(os.path.join(d2, "inner.inc"), "w").write(inner)
                    open(os.path.join(d2, "outer.inc"), "w").write("".join(pad + l + "\n" for l in outer_lines))
                    main = "program p\n  integer :: a, b, c\n" + "".join("  " + l + "\n" for l in main_body) + "end program p\n"
                    open(os.path.join(d1, "main.f90"), "w").write(main)
                    cases += 1
                    for kind in ("file", "string"):
                        for okw in (dict(), dict(ignore_comments=False)):
                            try:
                                rd = FortranFileReader(os.path.join(d1, "main.f90"), include_dirs=[d2], **okw) if kind == "file" else FortranStringReader(main, include_dirs=[d2], **okw)
                                got = str(ParserFactory().create(std="f2003")(rd))
                            except BaseException as e:  # noqa
                                got = "%s: %s" % (type(e).__name__, str(e)[:150])
                            if got != want_nested:
                                fail("include#nested_includes_are_transparent", dict(main=main, form=form, nested_include_is=place, reader=kind, options=okw), dict(printed=got))
            # histories: the same include name resolved under different include paths in one process
            with tempfile.TemporaryDirectory() as da, tempfile.TemporaryDirectory() as db, tempfile.TemporaryDirectory() as dc:
                open(os.path.join(da, "h.inc"), "w").write("  i = 1\n")
                open(os.path.join(db, "h.inc"), "w").write("  i = 2\n")
                msrc = "program p\n  integer :: i\n  include 'h.inc'\nend program p\n"
                for dirs, expect in (([da, db], "i = 1"), ([db, da], "i = 2"), ([da, db], "i = 1"), ([dc], "INCLUDE 'h.inc'"), ([dc, db], "i = 2")):
                    cases += 1
                    try:
                        got = str(ParserFactory().create(std="f2003")(FortranStringReader(msrc, include_dirs=dirs)))
                    except BaseException as e:  # noqa
                        got = "%s: %s" % (type(e).__name__, e)
                    if expect not in got or ("INCLUDE" in got) != ("INCLUDE" in expect):
                        fail("include#first_matching_directory_wins_per_parse", dict(main=msrc, include_dirs=["A" if x == da else "B" if x == db else "C" for x in dirs]),
                             dict(printed=got, expected_line=expect))
            # the search order is the same for every include of a parse: an earlier include found only in a later directory
            # (as a sibling or as the enclosing file) does not change which file a later include of another name resolves to
            with tempfile.TemporaryDirectory() as da, tempfile.TemporaryDirectory() as db:
                open(os.path.join(da, "h.inc"), "w").write("  y = 10\n")
                open(os.path.join(db, "h.inc"), "w").write("  y = 20\n")
                open(os.path.join(db, "only_b.inc"), "w").write("  x = 1\n")
                open(os.path.join(db, "outer_b.inc"), "w").write("  x = 2\n  include 'h.inc'\n")
                for case, msrc3 in (("sibling", "program p\n  include 'only_b.inc'\n  include 'h.inc'\nend program p\n"),
                                    ("nested", "program p\n  include 'outer_b.inc'\nend program p\n"),
                                    ("before_and_after", "program p\n  include 'h.inc'\n  include 'only_b.inc'\n  include 'h.inc'\nend program p\n")):
                    open(os.path.join(da, "main3.f90"), "w").write(msrc3)
                    for kind in ("string", "file"):
                        cases += 1
                        try:
                            rd = FortranStringReader(msrc3, include_dirs=[da, db]) if kind == "string" else FortranFileReader(os.path.join(da, "main3.f90"), include_dirs=[da, db])
                            got = str(ParserFactory().create(std="f2003")(rd))
                        except BaseException as e:  # noqa
                            got = "%s: %s" % (type(e).__name__, e)
                        if "y = 20" in got or "y = 10" not in got or "INCLUDE" in got:
                            fail("include#first_matching_directory_wins_per_parse", dict(main=msrc3, include_dirs=["A", "B"], case=case, reader=kind), dict(printed=got, expected_line="y = 10"))
            # an entry of that name that is not a file (a directory) in an earlier include directory is not a match
            with tempfile.TemporaryDirectory() as dx:
                os.mkdir(os.path.join(dx, "a")); os.mkdir(os.path.join(dx, "b")); os.mkdir(os.path.join(dx, "a", "x.inc"))
                open(os.path.join(dx, "b", "x.inc"), "w").write("  i = 7\n")
                cases += 1
                msrc2 = "program p\n  integer :: i\n  include 'x.inc'\nend program p\n"
                try:
                    got = str(ParserFactory().create(std="f2003")(FortranStringReader(msrc2, include_dirs=[os.path.join(dx, "a"), os.path.join(dx, "b")])))
                except BaseException as e:  # noqa
                    got = "%s: %s" % (type(e).__name__, e)
                if "i = 7" not in got or "INCLUDE" in got:
                    fail("include#directory_entry_is_not_a_match", dict(main=msrc2), dict(printed=got))
            # reader options are the same inside the included file (every option the reader constructor takes)
            from fparser.two.utils import walk as _walk
            body2 = ["  integer :: i", "  ! a note", "  !$ i = 3", "  !$omp barrier", "  i = 1"]
            with tempfile.TemporaryDirectory() as dd:
                for opts in ({}, dict(ignore_comments=False), dict(include_omp_conditional_lines=True), dict(process_directives=True),
                             dict(ignore_comments=False, include_omp_conditional_lines=True), dict(process_directives=True, include_omp_conditional_lines=True)):
                    full2 = "program p\n" + "\n".join(body2) + "\nend program p\n"

                    def opt_shape(src):
                        tree = ParserFactory().create(std="f2008")(FortranStringReader(src, include_dirs=[dd], **opts))
                        return str(tree), [type(n).__name__ for n in _walk(tree)]
                    want2 = opt_shape(full2)
                    for a in range(1, len(body2)):
                        for b in range(a + 1, len(body2) + 1):
                            open(os.path.join(dd, "opt.inc"), "w").write("\n".join(body2[a:b]) + "\n")
                            main = "program p\n" + "\n".join(body2[:a] + ["  include 'opt.inc'"] + body2[b:]) + "\nend program p\n"
                            cases += 1
                            try:
                                got2 = opt_shape(main)
                            except BaseException as e:  # noqa
                                got2 = ("%s: %s" % (type(e).__name__, str(e)[:150]), [])
                            if got2 != want2:
                                fail("include#same_reader_options_inside", dict(main=main, include=body2[a:b], options=opts), dict(printed=got2[0], expected=want2[0]))
            src = "program p\n  integer :: i\n  include 'nowhere.inc'\n  i = 1\nend program p\n"
            cases += 1
            t = parse(src)
            if "INCLUDE 'nowhere.inc'" not in str(t) or str(t).splitlines()[2].strip() != "INCLUDE 'nowhere.inc'":
                fail("include#unresolved_kept_in_place", dict(source=src), dict(printed=str(t)))
    if "C20" in only:
        from fparser.two import utils as U
        from fparser.two.parser import ParserFactory
        from fparser.common.readfortran import FortranStringReader

        def count(src, std="f2003"):
            parser = ParserFactory().create(std=std)
            calls = [0]
            orig = U.Base.__new__

            def counting(cls, *a, **k):
                calls[0] += 1
                return orig(cls, *a, **k)
            U.Base.__new__ = staticmethod(counting)
            try:
                parser(FortranStringReader(src))
            finally:
                U.Base.__new__ = orig
            return calls[0]
        fam = {
            "parens": lambda n: "program p\nx = " + "(" * n + "1" + ")" * n + "\nend program p\n",
            "nested_if": lambda n: "program p\n" + "".join("if (a) then\n" for _ in range(n)) + "x = 1\n" + "end if\n" * n + "end program p\n",
            "nested_do": lambda n: "program p\n" + "".join("do i%d = 1, 2\n" % k for k in range(n)) + "x = 1\n" + "end do\n" * n + "end program p\n",
            "shared_label_do": lambda n: "program p\n" + "".join("do 10 i%d = 1, 2\n" % k for k in range(n)) + "x = 1\n10 continue\nend program p\n",
            "nonblock_labelled_do": lambda n: "program p\n" + "".join("do %d i%d = 1, 2\n" % (10 + k, k) for k in range(n)) + "".join("%d x = %d\n" % (10 + k, k) for k in reversed(range(n))) + "end program p\n",
            "labelled_block_do_continue": lambda n: "program p\n" + "".join("do %d i%d = 1, 2\n" % (10 + k, k) for k in range(n)) + "x = 1\n" + "".join("%d continue\n" % (10 + k) for k in reversed(range(n))) + "end program p\n",
            "labelled_block_do_enddo": lambda n: "program p\n" + "".join("do %d i%d = 1, 2\n" % (10 + k, k) for k in range(n)) + "x = 1\n" + "".join("%d end do\n" % (10 + k) for k in reversed(range(n))) + "end program p\n",
            "shared_label_pairs": lambda n: "program p\n" + "".join("do %d i%d = 1, 2\ndo %d j%d = 1, 2\n" % (10 + k, k, 10 + k, k) for k in range(n)) + "x = 1\n" + "".join("%d continue\n" % (10 + k) for k in reversed(range(n))) + "end program p\n",
            "nested_where": lambda n: "program p\n" + "where (a > 0)\n" * n + "a = 1\n" + "end where\n" * n + "end program p\n",
            "nested_associate": lambda n: "program p\n" + "".join("associate (v%d => a)\n" % k for k in range(n)) + "x = 1\n" + "end associate\n" * n + "end program p\n",
            "nested_type_contains": lambda n: "module m\ncontains\n" + "".join("subroutine s%d\ncontains\n" % k for k in range(1)) + "subroutine t\nend subroutine t\n" + "".join("end subroutine s%d\n" % k for k in reversed(range(1))) + "end module m\n" + "".join("subroutine u%d\nx = 1\nend subroutine u%d\n" % (k, k) for k in range(n)),
            "nested_if_through_else": lambda n: "program p\n" + "if (a) then\nx = 1\nelse\n" * n + "x = 2\n" + "end if\n" * n + "end program p\n",
            "nested_if_through_else_if": lambda n: "program p\n" + "if (a) then\nx = 1\nelse if (b) then\n" * n + "x = 2\n" + "end if\n" * n + "end program p\n",
            "nested_where_through_elsewhere": lambda n: "program p\n" + "where (a > 0)\na = 1\nelsewhere\n" * n + "a = 2\n" + "end where\n" * n + "end program p\n",
            "nested_select_through_default": lambda n: "program p\n" + "select case (i)\ncase (1)\nx = 1\ncase default\n" * n + "x = 2\n" + "end select\n" * n + "end program p\n",
            # the inner construct in the *first* (or a middle) block of the outer one, which has further blocks after it
            "nested_select_first_block": lambda n: "program p\n" + "select case (i)\ncase (1)\n" * n + "x = 1\n" + "case default\ny = 2\nend select\n" * n + "end program p\n",
            "nested_select_middle_block": lambda n: "program p\n" + "select case (i)\ncase (1)\nw = 0\ncase (2)\n" * n + "x = 1\n" + "case (3)\ny = 2\ncase default\nz = 3\nend select\n" * n + "end program p\n",
            "nested_select_type_first_block": lambda n: "program p\n" + "select type (q)\ntype is (integer)\n" * n + "x = 1\n" + "class default\ny = 2\nend select\n" * n + "end program p\n",
            "nested_if_first_block": lambda n: "program p\n" + "if (a) then\n" * n + "x = 1\n" + "else\ny = 2\nend if\n" * n + "end program p\n",
            "nested_if_first_block_else_if": lambda n: "program p\n" + "if (a) then\n" * n + "x = 1\n" + "else if (b) then\ny = 2\nelse\nz = 3\nend if\n" * n + "end program p\n",
            "nested_if_middle_block": lambda n: "program p\n" + "if (a) then\nw = 0\nelse if (b) then\n" * n + "x = 1\n" + "else\ny = 2\nend if\n" * n + "end program p\n",
            "nested_where_first_block": lambda n: "program p\n" + "where (m)\n" * n + "a = 1\n" + "elsewhere\na = 2\nend where\n" * n + "end program p\n",
            "nested_where_masked_elsewhere": lambda n: "program p\n" + "where (m)\na = 0\nelsewhere (m2)\n" * n + "a = 1\n" + "elsewhere\na = 2\nend where\n" * n + "end program p\n",
            "nested_select_in_if_in_do": lambda n: "program p\n" + "do i = 1, 2\nif (a) then\nselect case (k)\ncase (1)\n" * n + "x = 1\n" + "case default\ny = 2\nend select\nelse\nz = 3\nend if\nend do\n" * n + "end program p\n",
            "nested_do_if_alternating": lambda n: "program p\n" + "do i = 1, 2\nif (a) then\n" * n + "x = 1\n" + "end if\nend do\n" * n + "end program p\n",
            "nested_block_data_units": lambda n: "".join("subroutine s%d\nx = 1\ncontains\nsubroutine t%d\ny = 2\nend subroutine t%d\nend subroutine s%d\n" % (k, k, k, k) for k in range(n)),
            "select": lambda n: "program p\n" + "".join("select case (i)\ncase (1)\n" for _ in range(n)) + "x = 1\n" + "end select\n" * n + "end program p\n",
            "repeat_assign": lambda n: "program p\n" + "x = x + 1\n" * n + "end program p\n",
            "repeat_loop": lambda n: "program p\n" + "do i = 1, 2\nx = 1\nend do\n" * n + "end program p\n",
        }
        def assign(e):
            return "program p\nx = %s\nend program p\n" % e

        def nest(fmt):
            def gen(n):
                e = "a"
                for k in range(n):
                    e = fmt % dict(e=e, k=k)
                return assign(e)
            return gen
        # parentheses nested around every binary operator level (left- and right-nested), and call / subscript nesting
        for op in ["+", "*", "**", "//", "==", ".lt.", ".and.", ".or.", ".eqv.", ".myop."]:
            fam["parens_left_" + op] = nest("(%%(e)s %s b%%(k)d)" % op)
            fam["parens_right_" + op] = nest("(b%%(k)d %s %%(e)s)" % op)
        # brackets whose content mixes two operator levels, the nested bracket being the last operand of the tighter one
        for outer in [">", "==", ".and.", ".or.", ".eqv.", "//"]:
            for inner in ["+", "*", "**", "//", "<", ".and."]:
                lvl = {"**": 10, "*": 9, "+": 8, "//": 7, "<": 6, ">": 6, "==": 6, ".and.": 4, ".or.": 3, ".eqv.": 2}
                if lvl[inner] > lvl[outer]:
                    fam["parens_mixed_%s_%s" % (outer, inner)] = nest("(c %s b%%(k)d %s %%(e)s)" % (outer, inner))
                    fam["parens_mixed_left_%s_%s" % (outer, inner)] = nest("(%%(e)s %s b%%(k)d %s c)" % (inner, outer))
        # nests of intrinsic calls around an argument that contains '=' (a comparison, a keyword argument, a literal)
        for tag, inner in (("eq", "merge(1, 0, a == b)"), ("le", "count(a <= b)"), ("kw", "sum(v, dim=1)"), ("lit", "len('a=b')"), ("plain", "merge(1, 0, a < b)")):
            fam["nested_intrinsic_calls_" + tag] = (lambda n, inner=inner: assign("abs(" * n + inner + ")" * n))
            fam["nested_intrinsic_two_args_" + tag] = (lambda n, inner=inner: assign("max(0, " * n + inner + ")" * n))
        fam["parens_unary_not"] = nest("(.not. %(e)s)")
        fam["parens_unary_minus"] = nest("(- %(e)s)")
        fam["nested_calls"] = nest("f(%(e)s)")
        fam["nested_subscripts"] = nest("b(%(e)s + 1)")
        fam["chain_and"] = lambda n: assign(" .and. ".join("b%d" % k for k in range(n + 1)))
        fam["chain_plus"] = lambda n: assign(" + ".join("b%d" % k for k in range(n + 1)))
        fam["chain_concat"] = lambda n: assign(" // ".join("b%d" % k for k in range(n + 1)))
        # consecutive non-block DO loops ended by an action statement, with every way of writing the label (leading zeros on
        # either side): the look-ahead for the terminating statement must stop at it however the digits are written
        for dl, tl in (("%d", "%d"), ("0%d", "0%d"), ("0%d", "%d"), ("%d", "00%d")):
            fam["consecutive_nonblock_do_%s_%s" % (dl.replace("%d", "n"), tl.replace("%d", "n"))] = (
                lambda n, dl=dl, tl=tl: "program p\n" + "".join(("do " + dl + " i = 1, n\n" + tl + " a(i) = b\n") % (10 + k, 10 + k) for k in range(n)) + "end program p\n")
        sizes0 = [2, 4, 8] if tier == "quick" else [2, 4, 8, 16]
        for name, gen in fam.items():
            sizes = sizes0
            if name.startswith(("parens_", "chain_")):
                sizes = [3, 6, 12] if tier == "quick" else [3, 6, 12, 24]
            elif name.startswith("nested_intrinsic_"):
                sizes = [3, 6, 12] if tier == "quick" else [3, 6, 12, 24]
            elif name.startswith("nested_") and name not in ("nested_if", "nested_do"):
                sizes = [2, 4, 8]               # known to be exponential: larger sizes only cost time
            counts = [count(gen(n)) for n in sizes]
            if name.startswith("consecutive_"):
                counts = [max(c, count(gen(n), "f2008")) for c, n in zip(counts, sizes)]
            cases += len(sizes)
            samples.append(dict(family=name, sizes=sizes, constructor_calls=counts))
            for (n1, c1), (n2, c2) in zip(zip(sizes, counts), zip(sizes[1:], counts[1:])):
                # doubling the size may multiply the work by at most 2^3 (cubic), far below the exponential signature
                if c2 > 8 * c1 + 200:
                    fail("effort#polynomial_in_size", dict(family=name, n=n2, source=gen(n2)), dict(sizes=sizes, constructor_calls=counts))
    print(json.dumps(dict(name="bounded_trees", cases=cases, distinct=cases, exhaustive=False, bounded=True, failures=failures, samples=samples[:6],
                          rule="catalogue of %d small programs x 2 standards x 3 comment modes; single-parenthesis edits of every line; garbage at every statement; "
                               "directive / include insertions at every boundary; size families for the effort count" % (len(CATALOGUE) + len(F2008_EXTRA)),
                          assumptions=["bounded: fixed catalogue of programs (listed in checks/bounded_trees.py)"],
                          seconds=round(time.time() - t0, 2))))
    return 0


def replay(path):
    data = json.load(open(path))
    w = data.get("witness") or {}
    print("obligation:", data.get("obligation"))
    print("witness:", {k: v for k, v in w.items() if k != "source"})
    if "source" in w:
        print("source:\n" + w["source"])
    print("observed at check time:", data.get("observed"))
    return 1


if __name__ == "__main__":
    if "--replay" in sys.argv:
        sys.exit(replay(sys.argv[sys.argv.index("--replay") + 1]))
    sys.exit(main(sys.argv[1:]))
