"""R12 [E]: the OpenMP conditional-sentinel patterns built by FortranReaderBase.set_format.

Enumerates every line prefix of length <= 8 over one representative per character class the
patterns distinguish and compares the real compiled patterns with the column rules of property
C15 (written here from the OpenMP / Fortran standard text).  Also validates the axiom used by
the proof of replace_omp_sentinels: group 1 always takes part and has length 2.
"""
import itertools
import json
import os
import sys
import time

REPO = os.environ.get("VERIF_REPO", "/repo")
if REPO != "/repo":
    sys.path.insert(0, os.path.join(REPO, "src"))
sys.dont_write_bytecode = True

ALPHABET = "!*cC$ 01&a"      # sentinel starters, '$', blank, zero, other digit, '&', letters


def spec_fixed(line):
    """fixed form: !$ / c$ / *$ in columns 1-2, then (cols 3-5 blank or digit and col 6 blank or 0) for an
    initial line, or (cols 3-5 blank and col 6 neither blank nor 0) for a continuation line"""
    if len(line) < 6:
        return False
    if line[0] not in "!*cC" or line[1] != "$":
        return False
    c35, c6 = line[2:5], line[5]
    initial = all(ch in " 0123456789" for ch in c35) and c6 in " 0"
    cont = c35 == "   " and c6 not in " 0"
    return initial or cont


def spec_free_initial(line):
    """free form: '!$' as first non-blank characters, followed by a blank"""
    s = line.lstrip(" ")
    return s.startswith("!$ ")


def spec_free_cont(line):
    """free-form continuation (only consulted after a sentinel line): '!$' first non-blank"""
    return line.lstrip(" ").startswith("!$")


def main(argv):
    tier = argv[argv.index("--tier") + 1] if "--tier" in argv else "quick"
    t0 = time.time()
    from fparser.common.readfortran import FortranStringReader
    from fparser.common.sourceinfo import FortranFormat
    fixed = FortranStringReader("      x = 1\n", include_omp_conditional_lines=True)
    fixed.set_format(FortranFormat(False, False))
    free = FortranStringReader("x = 1\n", include_omp_conditional_lines=True)
    free.set_format(FortranFormat(True, False))
    strict = FortranStringReader("      x = 1\n", include_omp_conditional_lines=True)
    strict.set_format(FortranFormat(False, True))       # strict fixed form (f77): the same column rules
    strict_free = FortranStringReader("x = 1\n", include_omp_conditional_lines=True)
    strict_free.set_format(FortranFormat(True, True))
    pats = [("fixed", fixed._re_omp_sentinel, spec_fixed), ("strict_fixed", strict._re_omp_sentinel, spec_fixed),
            ("strict_free_initial", strict_free._re_omp_sentinel, spec_free_initial),
            ("free_initial", free._re_omp_sentinel, spec_free_initial),
            ("free_cont", free._re_omp_sentinel_cont, spec_free_cont)]
    maxlen = 8 if tier == "thorough" else 7
    cases = 0
    failures = []
    samples = []
    for n in range(0, maxlen + 1):
        for tup in itertools.product(ALPHABET, repeat=n):
            line = "".join(tup)
            for name, pat, spec in pats:
                cases += 1
                m = pat.match(line)
                want = spec(line)
                if (m is not None) != want:
                    if len(failures) < 5:
                        failures.append(dict(obligation="common.readfortran:set_format#sentinel.%s.iff_column_rule" % name,
                                             witness=dict(line=line), observed=dict(matched=m is not None, column_rule=want)))
                if m is not None:
                    if m.start(1) < 0 or m.end(1) - m.start(1) != 2 or line[m.start(1):m.end(1)][1] != "$":
                        if len(failures) < 5:
                            failures.append(dict(obligation="common.readfortran:set_format#sentinel.%s.group1_len2" % name,
                                                 witness=dict(line=line), observed=dict(span=m.span(1))))
                    if len(samples) < 3 and n >= 6:
                        samples.append(dict(pattern=name, line=line, group1=m.span(1)))
    # genuine directives are not conditional lines
    for d in ("!$omp parallel", "!$OMP do", "  !$omp end", "!$acc loop"):
        cases += 1
        if free._re_omp_sentinel.match(d):
            failures.append(dict(obligation="common.readfortran:set_format#sentinel.free_initial.directive_not_matched",
                                 witness=dict(line=d), observed=dict(matched=True)))
    for d in ("!$omp parallel", "c$omp do   ", "*$omp end  "):
        cases += 1
        if fixed._re_omp_sentinel.match(d):
            failures.append(dict(obligation="common.readfortran:set_format#sentinel.fixed.directive_not_matched",
                                 witness=dict(line=d), observed=dict(matched=True)))
    print(json.dumps(dict(name="enum_sentinels", cases=cases, distinct=cases, exhaustive=True, failures=failures, samples=samples,
                          rule="every string of length <= %d over the class alphabet %r, for each of the three patterns" % (maxlen, ALPHABET),
                          assumptions=["sentinel patterns are anchored and inspect at most 6 columns (fixed) or blanks + 3 characters (free): "
                                       "classes beyond the enumerated prefix length behave as the enumerated ones"],
                          seconds=round(time.time() - t0, 2))))
    return 0


def replay(path):
    data = json.load(open(path))
    line = data["witness"]["line"]
    print("line %r: observed at check time %r" % (line, data.get("observed")))
    return 1


if __name__ == "__main__":
    if "--replay" in sys.argv:
        sys.exit(replay(sys.argv[sys.argv.index("--replay") + 1]))
    sys.exit(main(sys.argv[1:]))
