"""[B] C01 / C02 / C10 / C18 at rule level, on the snippets the repository's own tests feed to the rule classes.

Bounded stand-in (never counted as proved).  The corpus is harvested mechanically on every run from the test files of the
tree under check ($VERIF_REPO/src/fparser/two/tests/test_fortran2003.py, tests/fortran2003/*.py, tests/fortran2008/*.py):
every call `Cls("text")` / `tcls("text")` with a literal argument inside a test function, where Cls names a rule class
(about 700 distinct (class, text) pairs, some 130 rule classes).  A pair is a case when the class accepts the text under the
parser of its standard.  Checked per case:

  C01  obj2 = Cls(str(obj)):  repr(obj2) == repr(obj) and str(obj2) == str(obj)
  C02  the lexical content (literals, numbers, names; independent lexer of bounded_tokens.py) of str(obj) is that of the text
  C10  every node below obj has the right parent, no node object occurs twice, walk() visits each node once
  C18  copy.deepcopy(obj) prints the same text, has the same repr, shares no node

  bounded_harvest.py --only C01[,C02,C10,C18] [--tier quick|thorough] [--replay FILE]
"""
import ast
import copy
import glob
import json
import os
import sys
import time

ROOT = os.path.dirname(os.path.dirname(os.path.abspath(__file__)))
sys.path.insert(0, ROOT)
REPO = os.environ.get("VERIF_REPO", "/repo")
if REPO != "/repo":
    sys.path.insert(0, os.path.join(REPO, "src"))
sys.dont_write_bytecode = True


def harvest():
    base = os.path.join(REPO, "src", "fparser", "two", "tests")
    files = [(os.path.join(base, "test_fortran2003.py"), "f2003")] + \
            [(p, "f2003") for p in sorted(glob.glob(os.path.join(base, "fortran2003", "test_*.py")))] + \
            [(p, "f2008") for p in sorted(glob.glob(os.path.join(base, "fortran2008", "test_*.py")))]
    out, seen = [], set()
    for path, std in files:
        try:
            tree = ast.parse(open(path).read())
        except (OSError, SyntaxError):
            continue
        for fn in [n for n in ast.walk(tree) if isinstance(n, ast.FunctionDef) and n.name.startswith("test")]:
            cur = None
            for st in fn.body:
                for node in ast.walk(st):
                    if isinstance(node, ast.Assign) and len(node.targets) == 1 and isinstance(node.targets[0], ast.Name) \
                            and node.targets[0].id in ("tcls", "cls") and isinstance(node.value, ast.Name):
                        cur = node.value.id
                    if isinstance(node, ast.Call) and isinstance(node.func, ast.Name) and len(node.args) == 1 and not node.keywords \
                            and isinstance(node.args[0], ast.Constant) and isinstance(node.args[0].value, str):
                        name = cur if node.func.id in ("tcls", "cls") else node.func.id
                        if name and name[:1].isupper() and (name, node.args[0].value, std) not in seen:
                            seen.add((name, node.args[0].value, std))
                            out.append((name, node.args[0].value, std, os.path.basename(path)))
    return out


def harvest_programs():
    """string constants of the repository's parser tests that look like whole sources (several lines, an END somewhere)"""
    base = os.path.join(REPO, "src", "fparser", "two", "tests")
    out = set()
    for path in sorted(glob.glob(os.path.join(base, "**", "*.py"), recursive=True)):
        try:
            tree = ast.parse(open(path).read())
        except (OSError, SyntaxError):
            continue
        for n in ast.walk(tree):
            if isinstance(n, ast.Constant) and isinstance(n.value, str) and "\n" in n.value and len(n.value) < 3000 and "end" in n.value.lower():
                out.add(n.value)
    # the free-form example sources shipped with the repository
    for path in sorted(glob.glob(os.path.join(REPO, "example", "test_files", "**", "*.f90"), recursive=True)):
        try:
            text = open(path).read()
        except (OSError, UnicodeDecodeError):
            continue
        if len(text) < 6000:
            out.add(text)
    return sorted(out)


def all_nodes(node, acc=None):
    from fparser.two.utils import Base
    acc = [] if acc is None else acc
    acc.append(node)

    def rec(children):
        for c in children or []:
            if isinstance(c, Base):
                all_nodes(c, acc)
            elif isinstance(c, (list, tuple)):
                rec(c)
    rec(getattr(node, "children", None))
    return acc


def main(argv):
    tier = argv[argv.index("--tier") + 1] if "--tier" in argv else "quick"
    only = argv[argv.index("--only") + 1].split(",") if "--only" in argv else ["C01", "C02", "C10", "C18"]
    t0 = time.time()
    from fparser.two.parser import ParserFactory
    from fparser.two.utils import Base, walk
    from checks.bounded_tokens import lexical_content
    failures, cases, accepted, samples = [], 0, 0, []
    classes = set()

    def fail(oid, witness, observed):
        if sum(1 for f in failures if f["obligation"] == oid) < 60:
            failures.append(dict(obligation=oid, witness=witness, observed=observed))
    corpus = harvest()
    if "C17" in only:
        # every snippet the 2003 rule accepts is accepted by the rule of the same name under the 2008 parser, with the same text
        import fparser.two.Fortran2003 as F3
        import fparser.two.Fortran2008 as F8
        res = {}
        for std in ("f2003", "f2008"):
            ParserFactory().create(std=std)
            for name, text, s, path in corpus:
                if s != "f2003":
                    continue
                c8 = getattr(F8, name, None) if std == "f2008" else None
                if c8 is not None and not getattr(c8, "__module__", "").startswith("fparser.two.Fortran2008."):
                    c8 = None       # generated helper classes (_List, _Name) of the package itself are not rules of their own
                cls = c8 or getattr(F3, name, None)
                if cls is None or not isinstance(cls, type) or not issubclass(cls, Base):
                    continue
                try:
                    o = cls(text)
                    res[(name, text, std)] = None if o is None else str(o)
                except BaseException:  # noqa
                    res[(name, text, std)] = None
        for (name, text, std), v in sorted(res.items()):
            if std != "f2003" or v is None:
                continue
            cases += 1
            accepted += 1
            v8 = res.get((name, text, "f2008"))
            if v8 != v:
                fail("rule#f2008_rule_accepts_what_the_f2003_rule_accepts", dict(cls=name, text=text), dict(f2003=v, f2008=v8))
        only = [x for x in only if x != "C17"]
        if not only:
            print(json.dumps(dict(name="bounded_harvest", cases=cases, distinct=accepted, exhaustive=False, bounded=True, failures=failures, samples=samples,
                                  rule="%d harvested (class, text) pairs accepted by the f2003 rules compared under both parsers" % accepted,
                                  assumptions=["bounded: the snippets of the repository's own rule tests (harvested from the tree under check)"],
                                  seconds=round(time.time() - t0, 2))))
            return 0
    # whole programs harvested from the tests: the same checks at program level
    import logging
    import pickle
    import re as _re
    from fparser.common.readfortran import FortranStringReader
    logging.disable(logging.CRITICAL)
    unname = lambda r: _re.sub(r"'block:\d+'", "'block:N'", r)      # noqa: E731
    done = set()
    n_prog = 0
    for std in ("f2003", "f2008"):
        for k, src in enumerate(harvest_programs()):
            if src in done:
                continue
            try:
                rd = FortranStringReader(src)
                free_form = rd.format.is_free
                tree = ParserFactory().create(std=std)(rd)
            except BaseException:  # noqa
                continue
            done.add(src)
            n_prog += 1
            cases += 1
            accepted += 1
            wit = dict(program="harvested:%d" % k, std=std, source=src)
            if _re.search(r"\dp\s*[defg]", src, _re.I):
                wit["kind"] = "p_edit_descriptor_without_comma"
            printed = str(tree)
            if "C01" in only:
                try:
                    t2 = ParserFactory().create(std=std)(FortranStringReader(printed + "\n"))
                    if unname(repr(t2)) != unname(repr(tree)) or str(t2) != printed:
                        fail("program#printed_text_reparses_to_the_same_tree", wit, dict(printed=printed[:400]))
                except BaseException as e:  # noqa
                    fail("program#printed_text_reparses_to_the_same_tree", wit, dict(printed=printed[:400], error="%s: %s" % (type(e).__name__, str(e)[:100])))
            if "C02" in only and free_form and "kind" not in wit:      # the independent lexer reads free form; FORMAT commas are canonical
                from checks.bounded_tokens import strip_comments
                a, b = lexical_content(strip_comments(src)), lexical_content(strip_comments(printed))
                same = len(a) == len(b) and all(x == y or (x[0] == y[0] == "name" and y[1] == x[1].upper()) for x, y in zip(a, b))
                if not same:
                    kk = next((i for i, (x, y) in enumerate(zip(a, b)) if not (x == y or (x[0] == y[0] == "name" and y[1] == x[1].upper()))), min(len(a), len(b)))
                    fail("program#printed_text_has_the_source_tokens", wit, dict(printed=printed[:300], first_difference=dict(source=a[kk:kk + 3], printed=b[kk:kk + 3])))
            if "C10" in only:
                nodes = all_nodes(tree)
                ids = [id(n) for n in nodes]
                if len(ids) != len(set(ids)):
                    fail("program#no_node_twice", wit, dict(nodes=len(ids), distinct=len(set(ids))))
                for n in nodes:
                    for c in (x for x in (getattr(n, "children", None) or []) if isinstance(x, Base)):
                        if c.parent is not n:
                            fail("program#child_parent_is_holder", wit, dict(child=repr(c)[:80], parent=repr(c.parent)[:80]))
                    if n.get_root() is not tree:
                        fail("program#root_is_the_tree", wit, dict(node=repr(n)[:80]))
                w = [id(x) for x in walk(tree) if isinstance(x, Base)]
                if sorted(w) != sorted(ids):
                    fail("program#walk_visits_every_node_once", wit, dict(walk=len(w), nodes=len(ids)))
            if "C18" in only:
                for how, fn in (("deepcopy", copy.deepcopy), ("pickle", lambda t: pickle.loads(pickle.dumps(t)))):
                    try:
                        c = fn(tree)
                        if str(c) != printed or unname(repr(c)) != unname(repr(tree)):
                            fail("program#%s_equal" % how, wit, dict(copy=str(c)[:200]))
                        if {id(n) for n in all_nodes(c)} & {id(n) for n in all_nodes(tree)}:
                            fail("program#%s_shares_no_node" % how, wit, "shared node")
                    except BaseException as e:  # noqa
                        fail("program#%s_succeeds" % how, wit, "%s: %s" % (type(e).__name__, str(e)[:100]))
    for std in ("f2003", "f2008"):
        ParserFactory().create(std=std)
        import fparser.two.Fortran2003 as F3
        import fparser.two.Fortran2008 as F8
        for name, text, s, path in corpus:
            if s != std:
                continue
            cls = (getattr(F8, name, None) if std == "f2008" else None) or getattr(F3, name, None)
            if cls is None or not isinstance(cls, type) or not issubclass(cls, Base):
                continue
            cases += 1
            try:
                obj = cls(text)
            except BaseException:  # noqa
                continue
            if obj is None:
                continue
            accepted += 1
            classes.add(name)
            wit = dict(cls=name, text=text, std=std, test_file=path)
            printed = str(obj)
            if "C01" in only:
                try:
                    obj2 = cls(printed)
                    if obj2 is None or repr(obj2) != repr(obj) or str(obj2) != printed:
                        fail("rule#printed_text_reparses_to_the_same_tree", wit, dict(printed=printed, reparsed=repr(obj2)[:200], original=repr(obj)[:200]))
                except BaseException as e:  # noqa
                    fail("rule#printed_text_reparses_to_the_same_tree", wit, dict(printed=printed, error="%s: %s" % (type(e).__name__, str(e)[:100])))
            if "C02" in only:
                a, b = lexical_content(text), lexical_content(printed)
                lits = lambda t: [x for x in t if x[0] == "str"]                     # noqa: E731
                nums = lambda t: [x[1].replace("d", "e") for x in t if x[0] == "num"]    # noqa: E731
                squeeze = lambda x: "".join(seg if k % 2 else seg.replace(" ", "").lower()      # noqa: E731
                                            for k, seg in enumerate(x.replace('"', "'").split("'")))
                src_sq, prt_sq = squeeze(text).replace(",", ""), squeeze(printed).replace(",", "")      # commas in FORMAT lists are canonical
                # names are compared as substrings of the blank-free text (rule tests also feed blank-free fixed-form spellings)
                lost = [x[1] for x in a if x[0] == "name" and x[1].lower() not in prt_sq and not any(x[1].lower().startswith(k) for k in ("implicit", "type", "end", "else", "go", "double", "select", "block", "in"))]
                invented = [x[1] for x in b if x[0] == "name" and x[1].lower().rstrip("_") not in src_sq]
                if lits(a) != lits(b) or nums(a) != nums(b) or lost or invented:
                    fail("rule#printed_text_has_the_source_tokens", wit, dict(printed=printed, lost=lost, invented=invented,
                                                                                literals=[lits(a), lits(b)] if lits(a) != lits(b) else None,
                                                                                numbers=[nums(a), nums(b)] if nums(a) != nums(b) else None))
            if "C10" in only:
                nodes = all_nodes(obj)
                ids = [id(n) for n in nodes]
                if len(ids) != len(set(ids)):
                    fail("rule#no_node_twice", wit, dict(nodes=len(ids), distinct=len(set(ids))))
                for n in nodes:
                    kids = [c for c in all_nodes(n)[1:]]
                    for c in (x for x in (getattr(n, "children", None) or []) if isinstance(x, Base)):
                        if c.parent is not n:
                            fail("rule#child_parent_is_holder", wit, dict(child=repr(c)[:80], parent=repr(c.parent)[:80]))
                again = cls(text)
                if again is not None and {id(n) for n in all_nodes(again)} & set(ids):
                    fail("rule#two_parses_of_the_same_text_share_no_node", wit, "a node of the first tree occurs in the second")
                w = [id(x) for x in walk(obj) if isinstance(x, Base)]
                if sorted(w) != sorted(ids):
                    fail("rule#walk_visits_every_node_once", wit, dict(walk=len(w), nodes=len(ids)))
            if "C18" in only:
                try:
                    c = copy.deepcopy(obj)
                    if str(c) != printed or repr(c) != repr(obj):
                        fail("rule#deepcopy_equal", wit, dict(copy=str(c)[:200]))
                    if {id(n) for n in all_nodes(c)} & {id(n) for n in all_nodes(obj)}:
                        fail("rule#deepcopy_shares_no_node", wit, "shared node")
                except BaseException as e:  # noqa
                    fail("rule#deepcopy_succeeds", wit, "%s: %s" % (type(e).__name__, str(e)[:100]))
            if len(samples) < 3 and accepted % 211 == 0:
                samples.append(dict(cls=name, text=text))
    print(json.dumps(dict(name="bounded_harvest", cases=cases, distinct=accepted, exhaustive=False, bounded=True, failures=failures, samples=samples,
                          rule="%d (class, text) pairs harvested from the repository's rule tests (%d rule classes) and %d whole programs harvested from its parser tests; %d cases accepted" % (len(corpus), len(classes), n_prog, accepted),
                          assumptions=["bounded: the snippets of the repository's own rule tests (harvested from the tree under check)"],
                          seconds=round(time.time() - t0, 2))))
    return 0


def replay(path):
    data = json.load(open(path))
    w = data.get("witness") or {}
    print("obligation:", data.get("obligation"))
    print("rule class:", w.get("cls"), " standard:", w.get("std"))
    print("text:", repr(w.get("text")))
    print("observed at check time:", json.dumps(data.get("observed"))[:1200])
    return 1


if __name__ == "__main__":
    if "--replay" in sys.argv:
        sys.exit(replay(sys.argv[sys.argv.index("--replay") + 1]))
    sys.exit(main(sys.argv[1:]))
