"""Bounded stand-in [B] for the reader (C04, C05, C11, C12, C15): layout independence by construction.

A small set of statements with known token lists is rendered in every layout of a bounded layout
space; the item stream delivered by the real reader must be the one known by construction:

  C04/C12  free form: continuation at every token boundary and inside character literals (with and
           without a leading '&'), blank and comment lines inside continuations, trailing comments,
           indentation, ';' joins, case changes -> same statement texts (modulo blanks outside literals),
           labels and names separated, (first,last) spans exactly the physical lines
  C11      comments: each exactly once, text unchanged, a trailing comment directly after its statement;
           ignore_comments=True gives the stream of the comment-free source
  C05      fixed form renderings (continuation mark, comment style, label placement) are detected as
           fixed and give the same statements
  C15      conditional sentinels: enabled -> same stream as the plain source; disabled -> comments

The oracle is the generator itself (the statement list is known before it is laid out); nothing of
fparser is used to compute the expectation.
"""
import itertools
import json
import os
import random
import sys
import time

ROOT = os.path.dirname(os.path.dirname(os.path.abspath(__file__)))
sys.path.insert(0, ROOT)
REPO = os.environ.get("VERIF_REPO", "/repo")
if REPO != "/repo":
    sys.path.insert(0, os.path.join(REPO, "src"))
sys.dont_write_bytecode = True

from spec.reference import strip_blanks_outside_literals as squeeze  # noqa: E402

# statements as token lists; (label, name, tokens)
STATEMENTS = [
    (None, None, ["x", "=", "1"]),
    (10, None, ["y", "=", "a", "+", "b"]),
    (None, "lp", ["do", " ", "i", "=", "1", ",", "3"]),
    (None, None, ["s", "=", "'it''s ! not & a comment'"]),
    (None, None, ["call", " ", "f", "(", "'a'", ",", "\"b;c\"", ")"]),
    (20, "blk", ["if", "(", "z", ")", "then"]),
    (None, None, ["t", "=", "'!'", "//", "u"]),
    (None, None, ["print", " ", "*", ",", "'x'", ",", "1.0e-3"]),
    (None, None, ["msg", "=", "'alpha   beta  '"]),
    (None, None, ["w", "=", "\"two  ''  kinds\"", "//", "'  x'"]),
    (40, None, ["x", "=", "a", "(", "i", ":", "j", ")", "+", "b", "(", "k", ":", ")"]),      # a continuation line may start with 'i:j)' - not a construct name
    (None, None, ["y", "=", "f", "(", "'p q'", ",", "'p q'", ",", "1.0e3", ",", "1.0e3", ")"]),          # the same literal twice inside one bracket
    (30, None, ["nm", "=", "'Hello'", "//", "\"ABC_1\"", "//", "'MiXed Case'"]),       # literals that are single words keep their letter case
]
COMMENTS = ["! note", "!", "! it's \"odd\" & strange ! really"]


def tokens_text(tokens):
    return "".join(tokens)


def expected_item(stmt):
    label, name, toks = stmt
    return (squeeze(tokens_text(toks)), label, name)


def head(stmt, indent="", style=0):
    """label and construct name in front of a statement; style > 0: other legal spellings of the same label / name
    (leading zeros, up to five digits, blanks around the colon)"""
    label, name, toks = stmt
    h = indent
    if label is not None:
        h += ("%d " if style == 0 else "0%d " if style == 1 else "%05d   " if style == 2 else "%d  ") % label
    if name is not None:
        h += ("%s: " if style == 0 else "%s : " if style == 1 else "%s:" if style == 2 else "%s   :  ") % name
    return h


def free_layouts(stmt, rng, limit):
    """yield (lines, n_physical, comments) for one statement; comments are (text, after_statement)"""
    label, name, toks = stmt
    text_toks = toks
    # 0. canonical
    yield [head(stmt) + tokens_text(toks)], []
    yield [head(stmt, "   ") + tokens_text(toks) + "   "], []
    if label is not None or name is not None:
        for style in (1, 2, 3):
            yield [head(stmt, "", style) + tokens_text(toks)], []
            yield [head(stmt, " ", style) + tokens_text(toks[:1]) + " &", "  &" + tokens_text(toks[1:])], []
    if label is not None or name is not None:
        # the continuation point directly after the label / the construct name
        for style in (0, 1):
            h = head(stmt, "", style).rstrip()
            yield [h + " &", "  " + tokens_text(toks)], []
            yield [h + "&", "  &" + tokens_text(toks)], []
            yield [h + " &", "  ! after the head", "", "  " + tokens_text(toks)], ["! after the head"]
            yield [h + " & ! on the head", "", "  &" + tokens_text(toks) + " ! end"], ["! on the head", "! end"]
    # a trailing comment that repeats text found inside a literal of the statement (after a '!' there, or the whole rest)
    for t in toks:
        if t[0] in "'\"" and "!" in t:
            inner = t[1:-1]
            tail = inner[inner.index("!"):]
            for com in (tail, tail.split("'")[0].split('"')[0].rstrip() or "!", "!", "!" + tail[1:3]):
                if com.strip():
                    yield [head(stmt) + tokens_text(toks) + " " + com], [com.rstrip()]
    # 1. split at every token boundary, with / without leading &
    splits = []
    for k in range(1, len(toks)):
        for lead in ("", "&", "   &", "  "):
            a, b = tokens_text(toks[:k]), tokens_text(toks[k:])
            splits.append(([head(stmt) + a + " &", lead + b], []))
            # with a comment / blank line in between and a trailing comment on the first part
            splits.append(([head(stmt) + a + " & ! first", "", "  ! between", lead + b + " ! last"],
                           ["! first", "! between", "! last"]))
    # 2. split inside character literals
    for ti, t in enumerate(toks):
        if t[0] in "'\"" and len(t) > 3:
            for cut in range(2, len(t) - 1):
                pre = tokens_text(toks[:ti]) + t[:cut]
                post = t[cut:] + tokens_text(toks[ti + 1:])
                if t[cut - 1] == t[0] and t[cut] == t[0]:
                    continue   # do not cut a doubled quote in two
                splits.append(([head(stmt) + pre + "&", "&" + post], []))
                splits.append(([head(stmt) + pre + "&", "   &" + post], []))
                # comment and blank lines between the two halves of a continued literal are comment lines, not literal text
                splits.append(([head(stmt) + pre + "&", "! it's a comment & more", "", "  &" + post], ["! it's a comment & more"]))
    # 2b. two continuation points inside one literal: the middle line holds the piece between them and nothing else - the
    #     pieces that are only blanks ('&   &') are always taken, they are content of the literal like any other
    for ti, t in enumerate(toks):
        if t[0] in "'\"" and len(t) > 4:
            for i, j in itertools.combinations(range(2, len(t) - 1), 2):
                if (t[i - 1] == t[0] and t[i] == t[0]) or (t[j - 1] == t[0] and t[j] == t[0]):
                    continue
                pre, mid, post = tokens_text(toks[:ti]) + t[:i], t[i:j], t[j:] + tokens_text(toks[ti + 1:])
                lay = ([head(stmt) + pre + "&", "   &" + mid + "&", "&" + post], [])
                if not mid.strip():
                    yield lay
                    yield [head(stmt) + pre + "&", "&" + mid + "&", "! inside", "&" + post], ["! inside"]
                else:
                    splits.append(lay)
    # 2c. a blank-only piece between two tokens: the middle line of 'a &' / '&   &' / '& b' adds nothing but separates
    if len(toks) >= 2:
        for k in range(1, len(toks)):
            a, b = tokens_text(toks[:k]), tokens_text(toks[k:])
            yield [head(stmt) + a + "&", "  &   &", "  &" + b], []
    # 3. three-way splits
    if len(toks) >= 3:
        for i, j in itertools.combinations(range(1, len(toks)), 2):
            a, b, c = tokens_text(toks[:i]), tokens_text(toks[i:j]), tokens_text(toks[j:])
            splits.append(([head(stmt) + a + "&", "  &" + b + " &", c], []))
            splits.append(([head(stmt) + a + "&", "! c1", b + "&", "", "&" + c + " ! end"], ["! c1", "! end"]))
    rng.shuffle(splits)
    for s in splits[:limit]:
        yield s


def read_items(text, **kw):
    from fparser.common.readfortran import FortranStringReader, Comment
    from fparser.common.sourceinfo import FortranFormat
    free = kw.pop("free", True)
    strict = kw.pop("strict", False)
    r = FortranStringReader(text, **kw)
    if free is not None:
        r.set_format(FortranFormat(free, strict))       # the layout checks fix the form; detection is checked separately (C05)
    out = []
    while True:
        it = r.get_item()
        if it is None:
            break
        if isinstance(it, Comment):
            out.append(("comment", it.comment, None, None, tuple(it.span)))
        else:
            out.append(("stmt", squeeze(it.line), it.label, it.name, tuple(it.span)))
    return out


def main(argv):
    tier = argv[argv.index("--tier") + 1] if "--tier" in argv else "quick"
    seed = int(argv[argv.index("--seed") + 1]) if "--seed" in argv else 0
    only = argv[argv.index("--only") + 1].split(",") if "--only" in argv else ["C04", "C05", "C11", "C12", "C15"]
    rng = random.Random(seed)
    limit = 400 if tier == "thorough" else 60
    t0 = time.time()
    failures, samples = [], []
    cases = 0

    def fail(oid, witness, observed):
        if sum(1 for f in failures if f["obligation"] == oid) < 60:
            failures.append(dict(obligation=oid, witness=witness, observed=observed))

    # ---------------------------------------------------------------- free form, one statement per layout
    for stmt in STATEMENTS:
        want = expected_item(stmt)
        for lines, comments in free_layouts(stmt, rng, limit):
            src = "\n".join(lines) + "\n"
            cases += 1
            try:
                items = read_items(src, ignore_comments=False)
            except BaseException as e:  # noqa
                fail("reader#free.layout_independent", dict(source=src), "%s: %s" % (type(e).__name__, e))
                continue
            stmts = [i for i in items if i[0] == "stmt"]
            got = [(i[1].lower() if False else i[1], i[2], i[3]) for i in stmts]
            if "C04" in only or "C12" in only:
                if got != [want]:
                    fail("reader#free.layout_independent", dict(source=src), dict(items=items, expected=want))
                elif stmts[0][4] != (1, max(k + 1 for k, l in enumerate(lines) if l.strip() and not l.strip().startswith("!"))):
                    fail("reader#free.span_exact", dict(source=src), dict(span=stmts[0][4], lines=len(lines)))
            if "C11" in only or "C12" in only:
                gotc = [i[1] for i in items if i[0] == "comment" and i[1] != ""]
                if gotc != comments:
                    fail("reader#free.comments_once_in_order", dict(source=src), dict(comments=gotc, expected=comments))
            if "C11" in only:
                if stmts and items[0][0] != "stmt":  # noqa
                    fail("reader#free.statement_before_its_comments", dict(source=src), dict(items=items))
                ign = [(i[1], i[2], i[3]) for i in read_items(src, ignore_comments=True)]
                if ign != [want]:
                    fail("reader#free.ignored_comments_have_no_effect", dict(source=src), dict(items=ign, expected=want))
            if len(samples) < 2 and len(lines) > 2:
                samples.append(dict(source=src, items=items))
    # ---------------------------------------------------------------- ';' joins with trailing comments (C04, C11)
    for a, b in itertools.permutations(STATEMENTS[:6] + STATEMENTS[-2:], 2):   # (the last two: repeated literals, mixed-case literals)
        for sep in (";", " ; ", ";  "):
            for tail in ("", " ! trailing"):
                src = head(a) + tokens_text(a[2]) + sep + head(b, "", (len(sep) + len(tail)) % 4) + tokens_text(b[2]) + tail + "\n" + "z = 0\n"
                cases += 1
                try:
                    items = read_items(src, ignore_comments=False)
                except BaseException as e:  # noqa
                    fail("reader#free.semicolon_split", dict(source=src), "%s: %s" % (type(e).__name__, e))
                    continue
                got = [(i[0], i[1]) + ((i[2], i[3]) if i[0] == "stmt" else ()) for i in items]
                want = [("stmt",) + expected_item(a), ("stmt",) + expected_item(b)] + ([("comment", "! trailing")] if tail else []) + [("stmt", "z=0", None, None)]
                if got != want:
                    fail("reader#free.semicolon_split", dict(source=src), dict(items=got, expected=want))
    # ---------------------------------------------------------------- whole small program in several layouts (C12 spans, order)
    prog = STATEMENTS[:4]
    for trial in range(40 if tier == "quick" else 400):
        lines, want = [], []
        for stmt in prog:
            lay = rng.choice(list(free_layouts(stmt, rng, 12)))
            first = len(lines) + 1
            lines += lay[0]
            last = first - 1 + max(k + 1 for k, l in enumerate(lay[0]) if l.strip() and not l.strip().startswith("!"))
            want.append(expected_item(stmt) + ((first, last),))
            if rng.random() < 0.3:
                lines.append("")
            if rng.random() < 0.3:
                lines.append("! full line comment")
        src = "\n".join(lines) + "\n"
        cases += 1
        try:
            got = [(i[1], i[2], i[3], i[4]) for i in read_items(src, ignore_comments=True)]
        except BaseException as e:  # noqa
            fail("reader#free.program_stream", dict(source=src), "%s: %s" % (type(e).__name__, e))
            continue
        if got != want:
            fail("reader#free.program_stream", dict(source=src), dict(items=got, expected=want))
    # ---------------------------------------------------------------- put back / read again (C12)
    from fparser.common.readfortran import FortranStringReader as _FSR
    from fparser.common.sourceinfo import FortranFormat as _FF

    def FortranStringReader(text):
        r = _FSR(text)
        r.set_format(_FF(True, False))
        return r
    src = "\n".join(head(s) + tokens_text(s[2]) for s in STATEMENTS) + "\n"
    base = [(squeeze(i.line), i.label, i.name) for i in iter(FortranStringReader(src).get_item, None)]
    for trial in range(30 if tier == "quick" else 300):
        r = FortranStringReader(src)
        seen = []
        for step in range(40):
            k = rng.randint(1, 3)
            taken = []
            for _ in range(k):
                it = r.get_item()
                if it is None:
                    break
                taken.append(it)
            keep = rng.randint(0, len(taken))
            for it in reversed(taken[keep:]):
                r.put_item(it)
            seen += [(squeeze(i.line), i.label, i.name) for i in taken[:keep]]
            if not taken:
                break
        cases += 1
        if seen != base:
            fail("reader#put_back_stream_unchanged", dict(seed=seed, trial=trial), dict(seen=seen, expected=base))
    # ---------------------------------------------------------------- OpenMP conditional lines (C15)
    if "C15" in only:
        for stmt in STATEMENTS[:5]:
            for lines, comments in free_layouts(stmt, rng, limit // 2):
                if any(l.strip().startswith("!") or l.strip() == "" for l in lines) and False:
                    continue
                # sentinel version: every physical line of the statement gets '!$ ' (continuations '!$ &' optional)
                sl = []
                for k, l in enumerate(lines):
                    if l.strip() == "" or l.strip().startswith("!"):
                        sl.append(l)
                    else:
                        sl.append("!$ " + l)
                src = "\n".join(sl) + "\nz = 0\n"
                cases += 1
                try:
                    on = [(i[1], i[2], i[3]) for i in read_items(src, ignore_comments=True, include_omp_conditional_lines=True)]
                    off = [(i[1], i[2], i[3]) for i in read_items(src, ignore_comments=True)]
                except BaseException as e:  # noqa
                    fail("reader#omp.enabled_as_if_blank", dict(source=src), "%s: %s" % (type(e).__name__, e))
                    continue
                if on != [expected_item(stmt), ("z=0", None, None)]:
                    fail("reader#omp.enabled_as_if_blank", dict(source=src), dict(items=on, expected=[expected_item(stmt), ("z=0", None, None)]))
                if off != [("z=0", None, None)]:
                    fail("reader#omp.disabled_is_comment", dict(source=src), dict(items=off))
        for d in ("!$omp parallel", "!$OMP end parallel"):
            src = d + "\nx = 1\n"
            cases += 1
            on = [(i[0], i[1]) for i in read_items(src, ignore_comments=False, include_omp_conditional_lines=True)]
            if on != [("comment", d), ("stmt", "x=1")]:
                fail("reader#omp.directive_stays_comment", dict(source=src), dict(items=on))
        # fixed form: sentinel lines that follow comment lines, directive comments or blank lines (which the reader skips
        # in one go when comments are ignored), with every sentinel spelling, and a continuation after such lines
        from fparser.common.sourceinfo import FortranFormat as _FF15
        from fparser.common.readfortran import FortranStringReader as _FSR15
        fsrc = ("      i = 0\nC comment\n!$    k = 1\n\nc another\n*$    m = 2\n!$omp barrier\nc$   &  + 3\n* more\n\nC$    n = 4\n      z = 0\n")
        for on in (True, False):
            for ic in (True, False):
                cases += 1
                try:
                    rd = _FSR15(fsrc, ignore_comments=ic, include_omp_conditional_lines=on)
                    rd.set_format(_FF15(False, False))
                    got = ["".join(it.line.split()) for it in rd if type(it).__name__ == "Line"]
                except BaseException as e:  # noqa
                    got = ["%s: %s" % (type(e).__name__, str(e)[:100])]
                want = ["i=0", "k=1", "m=2+3", "n=4", "z=0"] if on else ["i=0", "z=0"]
                if got != want:
                    fail("reader#omp.fixed_sentinels_after_skipped_lines", dict(source=fsrc, enabled=on, ignore_comments=ic), dict(items=got, expected=want))
        # the option holds for every line the reader delivers: sentinel lines inside an included file too
        import tempfile
        from fparser.common.readfortran import FortranFileReader, FortranStringReader
        from fparser.common.sourceinfo import FortranFormat
        for free in (True, False):
            pad = "" if free else "      "
            inc_lines = ["!$ k = n + 2", "!$ m = k &" if free else "!$    m = k", "!$ & + 1" if free else "!$   & + 1", "j = 3" if free else "      j = 3"]
            if not free:
                inc_lines[0] = "!$    k = n + 2"
            plain = [("k=n+2", "k = n + 2"), ("m=k+1", None), ("j=3", "j = 3")]
            with tempfile.TemporaryDirectory() as d:
                name = "omp.inc" if free else "omp.f"
                open(os.path.join(d, name), "w").write("\n".join(inc_lines) + "\n")
                main = pad + "i = 1\n" + pad + "include '%s'\n" % name + pad + "z = 0\n"
                open(os.path.join(d, "main.f90" if free else "main.f"), "w").write(main)
                for kind in ("string", "file"):
                    for on in (True, False):
                        cases += 1
                        try:
                            if kind == "string":
                                rd = FortranStringReader(main, include_dirs=[d], ignore_comments=True, include_omp_conditional_lines=on)
                                rd.set_format(FortranFormat(free, False))
                            else:
                                rd = FortranFileReader(os.path.join(d, "main.f90" if free else "main.f"), include_dirs=[d], ignore_comments=True, include_omp_conditional_lines=on)
                            got = ["".join(it.line.split()) for it in rd]
                        except BaseException as e:  # noqa
                            got = ["%s: %s" % (type(e).__name__, str(e)[:100])]
                        want = ["i=1"] + ([p[0] for p in plain] if on else ["j=3"]) + ["z=0"]
                        if got != want:
                            fail("reader#omp.option_holds_inside_included_files", dict(source=main, include="\n".join(inc_lines), form="free" if free else "fixed", reader=kind, enabled=on),
                                 dict(items=got, expected=want))
    # ---------------------------------------------------------------- fixed form (C05)
    if "C05" in only:
        from fparser.common.sourceinfo import get_source_info_str
        for stmt in STATEMENTS:
            label, name, toks = stmt
            hd = (("%s: " % name) if name else "")
            body = hd + tokens_text(toks)
            lab = ("%-5d" % label) if label is not None else "     "
            for mark in "1&+x$!*c":       # any character but blank and zero in column 6, also the comment characters
                for cstyle in ("C comment", "c comment", "* comment", "! comment"):
                    for cut in range(len(hd) + 1, len(body)):
                        if body[cut - 1] == body[cut] and body[cut] in "'\"":
                            continue
                        if body[cut - 1] == " ":
                            continue      # a blank at the end of a fixed-form line is indistinguishable from padding
                        lines = [cstyle, lab + " " + body[:cut], cstyle, "     " + mark + body[cut:], "      z = 0"]
                        src = "\n".join(lines) + "\n"
                        cases += 1
                        fmt = get_source_info_str(src)
                        if fmt.is_free:
                            if any(l.rstrip().endswith("&") for l in lines):
                                # known class (D8): a fixed-form line that ends in '&' (comment text or literal text)
                                fail("sourceinfo#fixed_layout_with_line_ending_in_ampersand_detected_fixed", dict(source=src), dict(is_free=True))
                            else:
                                fail("sourceinfo#fixed_layout_detected_fixed", dict(source=src), dict(is_free=True))
                            continue
                        try:
                            items = [(i[1], i[2], i[3], i[4]) for i in read_items(src, ignore_comments=True, free=None)]
                        except BaseException as e:  # noqa
                            fail("reader#fixed.same_statements", dict(source=src), "%s: %s" % (type(e).__name__, e))
                            continue
                        want = [expected_item(stmt) + ((2, 4),), ("z=0", None, None, (5, 5))]
                        if items != want:
                            fail("reader#fixed.same_statements", dict(source=src), dict(items=items, expected=want))
                        # strict fixed form (Fortran 77 mode, set explicitly): the same statements; only 'C', 'c' and '*' lines
                        # are comments there and a '!' does not start a comment
                        if cstyle[0] in "Cc*" and "!" not in body and name is None:      # (no construct names in Fortran 77)
                            try:
                                items77 = [(i[1], i[2], i[3], i[4]) for i in read_items(src, ignore_comments=True, free=False, strict=True)]
                            except BaseException as e:  # noqa
                                fail("reader#fixed.strict_same_statements", dict(source=src), "%s: %s" % (type(e).__name__, e))
                                continue
                            if items77 != want:
                                fail("reader#fixed.strict_same_statements", dict(source=src), dict(items=items77, expected=want))
        # a zero in column 6 marks an initial line like a blank does (the label is in columns 1-5 only)
        for stmt in STATEMENTS:
            label, name, toks = stmt
            hd = (("%s: " % name) if name else "")
            body = hd + tokens_text(toks)
            lab = ("%5d" % label) if label is not None else "     "
            for lab_text in (lab, lab.strip().ljust(5) if label is not None else lab):
                src = "      y = 1\n" + lab_text + "0" + body + "\n" + "      z = 0\n"
                cases += 1
                try:
                    items = [(i2[1], i2[2], i2[3], i2[4]) for i2 in read_items(src, ignore_comments=True, free=False)]
                except BaseException as e:  # noqa
                    fail("reader#fixed.zero_in_column_6_is_an_initial_line", dict(source=src), "%s: %s" % (type(e).__name__, e))
                    continue
                want = [("y=1", None, None, (1, 1)), expected_item(stmt) + ((2, 2),), ("z=0", None, None, (3, 3))]
                if items != want:
                    fail("reader#fixed.zero_in_column_6_is_an_initial_line", dict(source=src), dict(items=items, expected=want))
        # three physical lines (quote state must be carried over more than one continuation line)
        for stmt in STATEMENTS:
            label, name, toks = stmt
            hd = (("%s: " % name) if name else "")
            body = hd + tokens_text(toks)
            lab = ("%-5d" % label) if label is not None else "     "
            for i, j in itertools.combinations(range(len(hd) + 1, len(body)), 2):
                if any(body[c - 1] == " " or (body[c - 1] == body[c] and body[c] in "'\"") for c in (i, j)):
                    continue
                if any(l.rstrip().endswith("&") for l in (body[:i], body[i:j])):
                    continue       # detection of such sources is the known finding D8
                lines = [lab + " " + body[:i], "     1" + body[i:j], "C between", "     2" + body[j:], "      z = 0"]
                src = "\n".join(lines) + "\n"
                cases += 1
                try:
                    items = [(i2[1], i2[2], i2[3], i2[4]) for i2 in read_items(src, ignore_comments=True, free=False)]
                except BaseException as e:  # noqa
                    fail("reader#fixed.same_statements", dict(source=src), "%s: %s" % (type(e).__name__, e))
                    continue
                want = [expected_item(stmt) + ((1, 4),), ("z=0", None, None, (5, 5))]
                if items != want:
                    fail("reader#fixed.same_statements", dict(source=src), dict(items=items, expected=want))
                # the same with comments kept (the comment line inside the continuation is then seen by the continuation loop
                # itself) and with a blank line as well: the quote state of the literal is carried across them
                lines2 = [lab + " " + body[:i], "C first", "     1" + body[i:j], "", "* second", "     2" + body[j:], "      z = 0"]
                src2 = "\n".join(lines2) + "\n"
                cases += 1
                try:
                    kept = read_items(src2, ignore_comments=False, free=False)
                except BaseException as e:  # noqa
                    fail("reader#fixed.same_statements", dict(source=src2, comments="kept"), "%s: %s" % (type(e).__name__, e))
                    continue
                st2 = [(i2[1], i2[2], i2[3]) for i2 in kept if i2[0] == "stmt"]
                if st2 != [expected_item(stmt), ("z=0", None, None)]:
                    fail("reader#fixed.same_statements", dict(source=src2, comments="kept"), dict(items=st2, expected=[expected_item(stmt), ("z=0", None, None)]))
        for first in ("x = 1", "program p", " call s()", "  a=b", "module m", "subroutine s", "integer function f()", "10 x = 1", "use m"):
            cases += 1
            if not get_source_info_str(first + "\n      y = 2\n").is_free:
                fail("sourceinfo#first_statement_in_cols_1_5_is_free", dict(source=first), dict(is_free=False))
        for first in ("call s()", "character(len=3) function f()", "complex function f()", "contains", "common /c/ a"):
            cases += 1
            if not get_source_info_str(first + "\n      y = 2\n").is_free:
                # known class (D18): column 1 is c/C/*: taken for a fixed-form comment line
                fail("sourceinfo#first_statement_starting_with_c_is_free", dict(source=first), dict(is_free=False))
    print(json.dumps(dict(name="bounded_layout", cases=cases, distinct=cases, exhaustive=False, bounded=True, failures=failures, samples=samples,
                          rule="layouts of %d statements: continuation at every token boundary x leading-& variants, inside literals, 3-way splits with comment/blank "
                               "lines (sampled to %d per statement by VERIF_SEED), ';' joins, random whole-program layouts, put-back walks, sentinel and fixed-form "
                               "renderings; each layout is one case" % (len(STATEMENTS), limit),
                          assumptions=["bounded: 8 statements, stated layout space; expectations come from the generator, not from fparser"],
                          seconds=round(time.time() - t0, 2))))
    return 0


def replay(path):
    data = json.load(open(path))
    w = data.get("witness") or {}
    if "source" not in w:
        print("witness:", w, "observed at check time:", data.get("observed"))
        return 1
    print("source:\n" + w["source"])
    try:
        print("items delivered by the real reader (comments kept):")
        for i in read_items(w["source"], ignore_comments=False):
            print("  ", i)
    except BaseException as e:  # noqa
        print("  reader raised", type(e).__name__, e)
    print("expected / observed at check time:", data.get("observed"))
    return 1


if __name__ == "__main__":
    if "--replay" in sys.argv:
        sys.exit(replay(sys.argv[sys.argv.index("--replay") + 1]))
    sys.exit(main(sys.argv[1:]))
