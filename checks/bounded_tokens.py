"""[B] C02: the text printed from a parse tree has the lexical content of the source, in order.

Bounded stand-in (never counted as proved).  Programs: the catalogue of bounded_trees.py, one program per statement of
the statement corpus of enum_registries.py, and a set of programs built from explicit token lists that exercise the
places where tokens travel through placeholder maps (nested parentheses, exponent literals, literals with blanks,
';' joins, continuation inside literals).  Comparison with an independent lexer (this file):

  * character literals: exact text, in order
  * numeric literals: exact text modulo case of the exponent letter / kind suffix
  * names (identifiers that are not Fortran keywords): exact spelling, in order
  * labels and construct names are names / numbers like the others

Keywords and punctuation are not compared (the documented canonicalisations insert, split and re-case keywords and
optional punctuation such as '::'); a name that happens to equal a keyword is therefore not compared either.

  bounded_tokens.py [--tier quick|thorough] [--replay FILE]
"""
import json
import os
import re
import sys
import time

ROOT = os.path.dirname(os.path.dirname(os.path.abspath(__file__)))
sys.path.insert(0, ROOT)
REPO = os.environ.get("VERIF_REPO", "/repo")
if REPO != "/repo":
    sys.path.insert(0, os.path.join(REPO, "src"))
sys.dont_write_bytecode = True

KEYWORDS = set("""
program end module subroutine function contains use only implicit none integer real complex logical character double
precision doubleprecision type class kind len parameter dimension allocatable pointer target save intent in out inout optional
external intrinsic public private data common equivalence namelist if then else elseif endif do enddo while select case
default where elsewhere endwhere forall endforall associate endassociate block endblock critical endcritical interface
endinterface procedure call return stop continue cycle exit goto go to print read write open close inquire rewind
backspace endfile wait format unit fmt file status iostat err access form recl blank position action delim pad advance
nml rec size eor allocate deallocate nullify stat errmsg source mold result recursive pure elemental bind c name
sequence enum enumerator abstract extends final generic nopass pass deferred non_overridable import volatile
asynchronous value protected operator assignment null concurrent error sync all images memory lock unlock codimension
contiguous submodule endsubmodule endprogram endmodule endsubroutine endfunction endtype endselect endprocedure
selectcase selecttype is exist opened number named sequential direct formatted unformatted readwrite nextrec
""".split())

TOKEN = re.compile(r"""
      (?P<boz>(?<![A-Za-z0-9_])[bBoOzZ](?:'[0-9A-Fa-f]*'|"[0-9A-Fa-f]*"))
    | (?P<str>'(?:[^'\n]|'')*'|"(?:[^"\n]|"")*")
    | (?P<num>(?:\d+\.\d*|\.\d+|\d+)(?:[eEdD][+-]?\d+)?(?:_\w+)?)
    | (?P<dot>\.[A-Za-z]+\.)
    | (?P<name>[A-Za-z]\w*)
    | (?P<other>\S)
""", re.X)


def strip_comments(src):
    """remove free-form comments and join continuation lines (character context aware)"""
    out, q = [], None
    for raw in src.splitlines():
        line, i = "", 0
        if q is None and raw.lstrip().startswith("#"):
            continue
        while i < len(raw):
            ch = raw[i]
            if q:
                line += ch
                if ch == q:
                    q = None
            elif ch in "'\"":
                q = ch
                line += ch
            elif ch == "!":
                break
            else:
                line += ch
            i += 1
        out.append(line)
    # join continuations: trailing '&' (outside comments) continues; a leading '&' on the next line is dropped
    joined, cur, cont = [], "", False
    for line in out:
        body = line.rstrip()
        if cont:
            s = line.lstrip()
            if s.startswith("&"):
                line_part = s[1:]
            else:
                line_part = line
            if not s:
                continue
            body = line_part.rstrip()
        else:
            if cur:
                joined.append(cur)
            cur = ""
        if body.endswith("&"):
            cur += body[:-1]
            cont = True
        else:
            cur += body
            cont = False
    if cur:
        joined.append(cur)
    return "\n".join(joined)


def lexical_content(text):
    out = []
    for m in TOKEN.finditer(text):
        kind = m.lastgroup
        t = m.group(kind)
        if kind == "boz":
            # a BOZ literal constant is a numeric literal: compared like the other numbers, without regard to letter case
            out.append(("num", t.lower().replace('"', "'")))
        elif kind == "str":
            out.append(("str", t))
        elif kind == "num":
            out.append(("num", t.lower().replace("d", "e") if re.search(r"[dD][+-]?\d", t) else t.lower()))
        elif kind == "name":
            if t.lower() not in KEYWORDS:
                out.append(("name", t))
    return out


def programs():
    from checks import bounded_trees as BT
    from checks import enum_registries as ER
    out = []
    for name, src in list(BT.CATALOGUE.items()):
        if name in ("include_cpp", "comments"):
            continue
        out.append(("catalogue:" + name, src, "f2003"))
    for name, src in BT.F2008_EXTRA.items():
        out.append(("catalogue:" + name, src, "f2008"))
    for i, s in enumerate(ER.EXEC):
        out.append(("exec:%d" % i, "program p\n  %s\nend program p\n" % s, "f2003"))
    for i, s in enumerate(ER.SPEC):
        out.append(("spec:%d" % i, "module m\n  %s\nend module m\n" % s, "f2003"))
    for i, s in enumerate(ER.IFACE):
        out.append(("iface:%d" % i, "module m\ninterface g\n%s\nend interface g\nend module m\n" % s, "f2003"))
    extra = [
        "x = f(g(a, b), h(c(1, 2), 'p(q)')) + 1.5e-3 * y(2:3, k)",
        "s = 'two  blanks' // \"and ''quotes''\" // t(1:2)",
        "character(len=n(1, 2)) :: cc",
        "character(kind=ck, len=n(1, 2)) :: ca",
        "character(n(1, 2), ck) :: ce",
        "real(kind=kk(1, 2)) :: rk",
        "integer, dimension(n(1, 2), 3) :: dd",
        "a = 1; B = 2; Cc = a + B",
        "lbl: do i = 1, n; s = s + v(i); end do lbl",
        "write(unit=10, fmt='(a, i3)', iostat=ios) 'v =', w(3)",
        "if (a(1, 2) > b(3)) c(4) = d((5))",
        "print *, (v(i), i = 1, n(2))",
        "call sub(a=1, b=(/ (i, i = 1, 3) /), c=[1.0e0, 2.0D0])",
        "allocate(p(n(1), m(2)), stat=ierr)",
        "data (v(i), i = 1, 3) / 1, 2, 3 /",
        "z = (1.0, 2.0) * cmplx(a(1), b(2))",
        "t%u(1)%v(2, 3) = w%x",
        "character :: c1*(n+1) = 'x', c2*4 = 'abcd'",
        "Alpha = Beta(Gamma, 1) + dELTA",
        "y = f('p q', 'p q')", "z = max(1.0e3, w, 1.0e3)", "call s(('a b', 'a b'), g(1.5d0, 1.5d0, 'a b'))", "v = h(\"it's\", \"it's\") + 2.0e0 * (2.0e0 + 2.0e0)",
        "x = ((a+b)) * (a+b)", "y = (a+b) * ((a+b))", "z = f((a+b)) + (a+b)", "s = \"'a b'\" // 'a b'", "w = (a+b) * (a+b) + 'p q' // 'p q'", "v = g((1, 2), (1, 2)) + ((1, 2))",
        "u = 'a+b' // c(a+b) // \"a+b\"", "r = 1.0e3 * (1.0e3) + h(1.0e3)",
        "CALL MySub(ArgOne, argTwo)",
    ]
    for i, s in enumerate(extra):
        wrap = "module m\n  %s\nend module m\n" if re.match(r"\s*(character|real|integer)\b", s) else "program p\n  %s\nend program p\n"
        out.append(("tokens:%d" % i, wrap % s, "f2003"))
    # operand inflation: every name or number of a corpus statement in turn replaced by a parenthesised expression, a
    # call with two arguments and a literal with brackets inside - wherever the result is still a valid statement its
    # lexical content must come back (the parser abstracts such operands by placeholders and has to restore each one)
    out += inflated_programs()
    # function suffixes and procedure headers
    out.append(("header:0", "function f(x) bind(c) result(r)\nend function f\n", "f2003"))
    out.append(("header:1", "function f(x) result(r) bind(c)\nend function f\n", "f2003"))
    out.append(("header:2", "pure recursive integer function g(a, b) result(res)\nend function g\n", "f2003"))
    out.append(("header:3", "character(len=n(1, 2)) function cf(x)\nend function cf\n", "f2003"))
    out.append(("header:4", "real(kind=kk(1, 2)) function rf(x) result(r)\nend function rf\n", "f2003"))
    out.append(("header:5", "type(pt(k(1, 2), 3)) function tf()\nend function tf\n", "f2003"))
    out.append(("header:6", "subroutine sb(a, b) bind(c, name='s(b')\nend subroutine sb\n", "f2003"))
    # literals with runs of blanks in every part of a procedure header (prefix type, between prefix words, suffix)
    out.append(("header:7", "pure  character(len=len('a  b'))  elemental function hf(x)\nend function hf\n", "f2003"))
    out.append(("header:8", "character(len=len('c   d'), kind=kind('e  f')) function hg() result(r)\nend function hg\n", "f2003"))
    out.append(("header:9", "function hh() bind(c, name='two  blanks')\nend function hh\n", "f2003"))
    out.append(("header:10", "subroutine hs() bind(c, name=\"with  'quote'  inside\")\nend subroutine hs\n", "f2003"))
    out.append(("header:11", "module m\ntype :: t\ncontains\nprocedure :: ab\nprocedure :: cd\ngeneric :: g =>ab, cd\ngeneric::h=>cd\nend type t\nend module m\n", "f2003"))
    # continuation inside a literal with blanks after the leading '&'
    out.append(("layout:0", "program p\n  msg = 'alpha&\n      &   beta  '\nend program p\n", "f2003"))
    out.append(("layout:1", "program p\n  x = 1.0e&\n  &-3 + y\nend program p\n", "f2003"))
    return out


def bracket_counts(text):
    t = re.sub(r"'(?:[^'\n]|'')*'|\"(?:[^\"\n]|\"\")*\"", "''", text)
    t = re.sub(r"\(\s*\)", "", t)
    return dict(open=t.count("("), close=t.count(")"), square=t.count("["), constructor=t.count("(/"))


def inflated_programs():
    from checks import enum_registries as ER
    inflated = []
    for kind, wrapper, stmts in (("exec", "program p\n  %s\nend program p\n", ER.EXEC), ("spec", "module m\n  %s\nend module m\n", ER.SPEC)):
        for i, st in enumerate(stmts):
            if "\n" in st:
                continue
            toks = [(m.lastgroup, m.start(), m.end()) for m in TOKEN.finditer(st)]
            n = 0
            for kind_t, a, b in toks:
                if kind_t not in ("name", "num") or (kind_t == "name" and st[a:b].lower() in KEYWORDS):
                    continue
                if b < len(st) and st[b:].lstrip()[:1] in ("(", "=", "%") and kind_t == "name":
                    continue            # a designator head or a keyword argument
                for j, repl in enumerate(("(zq + 1)", "fq(zq, 2)", "len('a(b')")):
                    n += 1
                    inflated.append(("inflated:%s:%d:%d" % (kind, i, n), wrapper % (st[:a] + repl + st[b:]), "f2003"))
    return inflated


def run(tier):
    from fparser.two.parser import ParserFactory
    from fparser.two.utils import FortranSyntaxError, FparserException
    from fparser.common.readfortran import FortranStringReader
    failures, cases, samples = [], 0, []
    for name, src, std in programs():
        for kw in (dict(), dict(ignore_comments=False)):
            if kw and tier != "thorough" and not name.startswith("catalogue"):
                continue
            cases += 1
            try:
                tree = ParserFactory().create(std=std)(FortranStringReader(src, **kw))
            except FortranSyntaxError:
                continue            # acceptance is not this check's business (C17 / C08)
            except BaseException as e:  # noqa
                if name.startswith("inflated:") and isinstance(e, FparserException):
                    continue        # an inflated statement need not be valid; which exception rejects it is C06's business
                failures.append(dict(obligation="tokens#parse_or_syntax_error", witness=dict(program=name, source=src), observed="%s: %s" % (type(e).__name__, str(e)[:120])))
                continue
            want = lexical_content(strip_comments(src))
            got = lexical_content(strip_comments(str(tree)))
            # brackets are tokens too: apart from empty pairs (the one canonicalisation that adds or removes parentheses) the
            # printed text has as many of each as the source
            pc_src, pc_out = bracket_counts(strip_comments(src)), bracket_counts(strip_comments(str(tree)))
            if pc_src != pc_out:
                failures.append(dict(obligation="tokens#same_number_of_brackets", witness=dict(program=name, std=std, options=kw, source=src),
                                     observed=dict(printed=str(tree)[:400], source_counts=pc_src, printed_counts=pc_out)))
                continue
            if "F2PY_" in str(tree) and "F2PY_" not in src:
                failures.append(dict(obligation="tokens#no_internal_placeholder_in_printed_text", witness=dict(program=name, std=std, options=kw, source=src),
                                     observed=dict(printed=str(tree)[:400])))
                continue
            # keyword-like names (intrinsic procedures, edit descriptors) are printed in upper case: accepted as keyword case
            same = len(want) == len(got) and all(a == b or (a[0] == b[0] == "name" and b[1] == a[1].upper()) for a, b in zip(want, got))
            if not same:
                k = next((i for i, (a, b) in enumerate(zip(want, got)) if not (a == b or (a[0] == b[0] == "name" and b[1] == a[1].upper()))), min(len(want), len(got)))
                # site of the difference: the statement keyword of the printed line that holds the first differing token,
                # and whether the tokens are merely in another order
                stmt, seen = None, 0
                for pl in strip_comments(str(tree)).splitlines():
                    seen += len(lexical_content(pl))
                    if seen > k:
                        stmt = (pl.split() or [""])[0].split("(")[0].upper()
                        break
                canon = lambda ts: sorted((a, b.upper() if a == "name" else b) for a, b in ts)      # noqa: E731
                kind = "reordered" if canon(want) == canon(got) else "changed"
                failures.append(dict(obligation="tokens#printed_text_has_the_source_tokens_in_order",
                                     witness=dict(program=name, std=std, options=kw, source=src, statement=stmt, difference=kind),
                                     observed=dict(printed=str(tree)[:400], first_difference=dict(source=want[k:k + 3], printed=got[k:k + 3]))))
            elif len(samples) < 3:
                samples.append(dict(program=name, tokens=len(want)))
    return failures, cases, samples


def main(argv):
    tier = argv[argv.index("--tier") + 1] if "--tier" in argv else "quick"
    t0 = time.time()
    failures, cases, samples = run(tier)
    print(json.dumps(dict(name="bounded_tokens", cases=cases, distinct=cases, exhaustive=False, bounded=True, failures=failures, samples=samples,
                          rule="lexical content (literals exact, numbers, non-keyword names lower-cased, in order) of source vs printed text "
                               "for the program catalogue, the statement corpus and token-list programs",
                          assumptions=["bounded: fixed programs (checks/bounded_tokens.py); keywords and punctuation are not compared"],
                          seconds=round(time.time() - t0, 2))))
    return 0


def replay(path):
    data = json.load(open(path))
    w = data.get("witness") or {}
    print("obligation:", data.get("obligation"))
    print("source:\n" + w.get("source", ""))
    print("observed at check time:", data.get("observed"))
    return 1


if __name__ == "__main__":
    if "--replay" in sys.argv:
        sys.exit(replay(sys.argv[sys.argv.index("--replay") + 1]))
    sys.exit(main(sys.argv[1:]))
