"""[B] C06: every text obtained from a valid program by token mutations is either parsed or rejected with FortranSyntaxError.

Bounded stand-in (never counted as proved).  The mutation space is enumerated deterministically, not sampled at random:

  seeds       the program catalogue of bounded_trees.py, one program per statement of the corpus of enum_registries.py
  mutations   at every token position: delete, duplicate, swap with the next token, replace by each of a fixed list of
              punctuation marks and keywords; plus line deletion / duplication / swap; thorough adds all pairs of a
              token mutation with a replacement at a later position (stride-limited)
  configs     std in {f2003, f2008} x ignore_comments in {True, False} (quick: one configuration per mutant, rotating)

A run fails when parsing or printing lets an exception other than FortranSyntaxError escape (SystemExit included) or takes
longer than TIME_LIMIT seconds.  A failure is identified by (exception class, innermost fparser frame), so that known call
sites (reader.error -> sys.exit) can be listed as findings while any other escape is still reported.

  bounded_garbage.py [--tier quick|thorough] [--replay FILE]
"""
import json
import multiprocessing
import os
import re
import signal
import sys
import time
import traceback

ROOT = os.path.dirname(os.path.dirname(os.path.abspath(__file__)))
sys.path.insert(0, ROOT)
REPO = os.environ.get("VERIF_REPO", "/repo")
if REPO != "/repo":
    sys.path.insert(0, os.path.join(REPO, "src"))
sys.dont_write_bytecode = True
TIME_LIMIT = 30

TOKEN = re.compile(r"'(?:[^'\n]|'')*'|\"(?:[^\"\n]|\"\")*\"|[A-Za-z_]\w*|\d+\.?\d*(?:[eEdD][+-]?\d+)?|\*\*|//|==|/=|<=|>=|=>|::|\.\w+\.|\n|[^\s\w]")
REPLACEMENTS = ["(", ")", ",", "=", "::", "end", "'", "&", "!", "%", ".and.", "1 2", "**", ":", "/", "if", "do", "\n", ";", "#"]


def seeds():
    from checks import bounded_trees as BT
    from checks import enum_registries as ER
    out = []
    for name, src in list(BT.CATALOGUE.items()) + list(BT.F2008_EXTRA.items()):
        out.append(("catalogue:" + name, src))
    for i, s in enumerate(ER.EXEC):
        out.append(("exec:%d" % i, "program p\n  %s\nend program p\n" % s))
    for i, s in enumerate(ER.SPEC):
        out.append(("spec:%d" % i, "module m\n  %s\nend module m\n" % s))
    for i, s in enumerate(ER.IFACE):
        out.append(("iface:%d" % i, "module m\ninterface g\n%s\nend interface g\nend module m\n" % s))
    for i, s in enumerate(ER.FORMATS):
        out.append(("format:%d" % i, "program p\n100 format(%s)\nend program p\n" % s))
    out.append(("use_dtio", "module m\n  use a, only: read(formatted), operator(.x.), b => c\nend module m\n"))
    out.append(("hollerith", "program p\n100 format(1x, 5Hhello, i3)\nend program p\n"))
    out.append(("block_data", "block data bd\n  common /c/ a\n  data a /1/\nend block data bd\n"))
    out.append(("formats", "program p\n100 format(1x, e12.4, g10.3, es12.4e2, 1p, f6.2, 3(i2, 1x), 'lit', /, a)\nend program p\n"))
    out.append(("cray_pointer", "program p\n  pointer (ptr, x), (p2, y(10))\nend program p\n"))
    out.append(("select_case", "program p\n  select case (i)\n  case (1)\n    x = 1\n  case (2:5)\n    x = 2\n  case default\n    x = 3\n  end select\nend program p\n"))
    out.append(("placeholders", "program p\n  x = (a + 1) * f(b, (c)) + 1.0e-3\nend program p\n"))
    out.append(("typed", "module m\n  type, extends(base) :: t\n    procedure(f), pointer, nopass :: p => null()\n  contains\n    procedure :: q => r\n    generic :: operator(+) => q\n    final :: fin\n  end type t\nend module m\n"))
    out.append(("implicit", "subroutine s\n  implicit real (a-h, o-z), integer (i-n)\n  x = 1\nend subroutine s\n"))
    out.append(("fixed", "      subroutine f(a)\nC     comment\n      integer a\n      a = 1 +\n     & 2\n   10 continue\n      end\n"))
    # whole programs harvested from the repository's own parser tests (free form only: the mutations are token based)
    try:
        from checks.bounded_harvest import harvest_programs
        from fparser.common.readfortran import FortranStringReader
        from fparser.two.parser import ParserFactory
        import logging
        logging.disable(logging.CRITICAL)
        k = 0
        for src in harvest_programs():
            try:
                rd = FortranStringReader(src)
                if not rd.format.is_free or len(src) > 1200:
                    continue
                ParserFactory().create(std="f2008")(rd)
            except BaseException:  # noqa
                continue
            out.append(("harvested:%d" % k, src))
            k += 1
    except ImportError:
        pass
    return out


def tokens(src):
    """token texts with the white space that precedes each (so that ''.join restores the source)"""
    out, pos = [], 0
    for m in TOKEN.finditer(src):
        out.append(src[pos:m.end()])
        pos = m.end()
    if pos < len(src):
        out.append(src[pos:])
    return out


def lead(tok):
    return tok[:len(tok) - len(tok.lstrip(" \t"))]


def single_mutants(src):
    toks = tokens(src)
    n = len(toks)
    for i in range(n):
        yield ("del", i), "".join(toks[:i] + toks[i + 1:])
        yield ("dup", i), "".join(toks[:i + 1] + toks[i:])
        if i + 1 < n:
            yield ("swap", i), "".join(toks[:i] + [toks[i + 1], toks[i]] + toks[i + 2:])
        for r in REPLACEMENTS:
            yield ("rep", i, r), "".join(toks[:i] + [lead(toks[i]) + r] + toks[i + 1:])
    lines = src.splitlines(True)
    for i in range(len(lines)):
        yield ("ldel", i), "".join(lines[:i] + lines[i + 1:])
        yield ("ldup", i), "".join(lines[:i + 1] + lines[i:])
        if i + 1 < len(lines):
            yield ("lswap", i), "".join(lines[:i] + [lines[i + 1], lines[i]] + lines[i + 2:])


def double_mutants(src, stride):
    toks = tokens(src)
    n = len(toks)
    k = 0
    for i in range(n):
        for how in ("del", "dup"):
            first = toks[:i] + toks[i + 1:] if how == "del" else toks[:i + 1] + toks[i:]
            for j in range(i + 1, len(first)):
                for r in REPLACEMENTS:
                    k += 1
                    if k % stride:
                        continue
                    yield (how, i, "rep", j, r), "".join(first[:j] + [lead(first[j]) + r] + first[j + 1:])


class Timeout(BaseException):
    pass


def _alarm(signum, frame):
    raise Timeout()


def site_of(tb):
    site = "?"
    while tb is not None:
        code = tb.tb_frame.f_code
        if "/fparser/" in code.co_filename:
            site = "%s:%s" % (os.path.basename(code.co_filename), getattr(code, "co_qualname", code.co_name))
        tb = tb.tb_next
    return site


_CRITICAL = []


class _Capture(__import__("logging").Handler):
    def emit(self, record):
        _CRITICAL.append(record.getMessage())


def run_one(job):
    src, std, ignore_comments = job
    from fparser.two.parser import ParserFactory
    from fparser.two.utils import FortranSyntaxError
    from fparser.common.readfortran import FortranStringReader
    import logging
    root = logging.getLogger()
    if not any(isinstance(h, _Capture) for h in root.handlers):
        root.handlers[:] = [_Capture(level=logging.CRITICAL)]
        root.setLevel(logging.CRITICAL)
    del _CRITICAL[:]
    signal.signal(signal.SIGALRM, _alarm)
    signal.alarm(TIME_LIMIT)
    try:
        tree = ParserFactory().create(std=std)(FortranStringReader(src, ignore_comments=ignore_comments))
        str(tree)
        if any("STOPPED READING" in m for m in _CRITICAL):
            # the reader gave up on an internal error and reported the end of the input: the tree silently lacks the rest
            return dict(exception="reader-stopped-silently", site="readfortran.py:FortranReaderBase.next", message=" | ".join(_CRITICAL)[:160])
        return None
    except FortranSyntaxError:
        return None
    except Timeout:
        return dict(exception="Timeout", site="-", message="no result within %d s" % TIME_LIMIT)
    except BaseException as e:  # noqa
        return dict(exception=type(e).__name__, site=site_of(e.__traceback__), message=str(e)[:160])
    finally:
        signal.alarm(0)


CONFIGS = [("f2003", True), ("f2008", False), ("f2008", True), ("f2003", False)]


def jobs(tier):
    k = 0
    for name, src in seeds():
        for mut, text in single_mutants(src):
            k += 1
            if tier == "quick":
                yield (name, mut, text) + CONFIGS[k % 4]
            else:
                for c in CONFIGS:
                    yield (name, mut, text) + c
        if tier == "thorough":
            for mut, text in double_mutants(src, 7):
                k += 1
                yield (name, mut, text) + CONFIGS[k % 4]


def main(argv):
    tier = argv[argv.index("--tier") + 1] if "--tier" in argv else "quick"
    t0 = time.time()
    todo = list(jobs(tier))
    if tier == "quick":
        todo = todo[::3]            # every third mutant (deterministic); the thorough tier runs them all
    with multiprocessing.Pool(min(16, os.cpu_count() or 4)) as pool:
        res = pool.map(run_one, [(t[2], t[3], t[4]) for t in todo], chunksize=64)
    failures, seen = [], {}
    for t, r in zip(todo, res):
        if r is None:
            continue
        key = (r["exception"], r["site"])
        seen.setdefault(key, 0)
        seen[key] += 1
        if seen[key] > 1:
            continue                # one witness per (exception, call site)
        failures.append(dict(obligation="garbage#only_syntax_error_escapes",
                             witness=dict(exception=r["exception"], site=r["site"], source=t[2], std=t[3], ignore_comments=t[4],
                                          seed=t[0], mutation=list(t[1])),
                             observed=dict(message=r["message"], occurrences=0)))
    for f in failures:
        f["observed"]["occurrences"] = seen[(f["witness"]["exception"], f["witness"]["site"])]
    print(json.dumps(dict(name="bounded_garbage", cases=len(todo), distinct=len(set(t[2] for t in todo)), exhaustive=False, bounded=True,
                          failures=failures, samples=[dict(seed=t[0], mutation=list(t[1]), std=t[3]) for t in todo[:3]],
                          rule="token mutations (delete, duplicate, swap, %d replacements) and line mutations of %d seed programs; tier %s"
                               % (len(REPLACEMENTS), len(seeds()), tier),
                          assumptions=["bounded: fixed seed programs and mutation operators (checks/bounded_garbage.py); time limit %d s per parse" % TIME_LIMIT],
                          seconds=round(time.time() - t0, 2))))
    return 0


def replay(path):
    data = json.load(open(path))
    w = data.get("witness") or {}
    print("obligation:", data.get("obligation"))
    print("source:\n" + w.get("source", ""))
    r = run_one((w["source"], w.get("std", "f2003"), w.get("ignore_comments", True)))
    print("now:", r)
    return 1 if r is not None else 0


if __name__ == "__main__":
    if "--replay" in sys.argv:
        sys.exit(replay(sys.argv[sys.argv.index("--replay") + 1]))
    sys.exit(main(sys.argv[1:]))
