"""Which units decide which property.  Proof units come from the `serves`
lists of the contracts; this file adds enumerations, bounded-only units,
the claimed level and the per-property assumptions."""

PROPS = {
    "C02": dict(level="other", enum=[], bounded=[],
                claim="the tokenisers every rule goes through (_next_quote, splitquote) are proved lossless and quote-exact for all inputs; other links of the chain are listed in the evidence as bounded or not decided",
                trusted="pyvc VC generator, SMT solvers, CPython semantics of modelled str/list operations; per-rule match methods are not under contract",
                explanation="tokenisers proved lossless for all inputs; remaining links bounded (see DESIGN 6/C02)",
                assumptions=[]),
}
