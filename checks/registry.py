"""Which units decide which property.  Proof units come from the `serves`
lists of the contracts; this file adds enumerations, bounded-only units,
witness scenarios, the claimed level and the per-property assumptions."""

TRUSTED = ("pyvc VC generator (home-made; cross-checked, no trusted kernel), SMT solvers cvc5 1.0.3 / z3 4.8.12 / z3 5.1.0, "
           "CPython semantics of the modelled str/list/dict operations, the trusted protocol contracts proto:* (G3) "
           "and the regex / library axioms listed in the evidence")

PROPS = {
    "C02": dict(level="other",
                claim="the tokenisers every rule goes through (_next_quote, splitquote) are proved lossless and quote-exact for all "
                      "inputs; Program.match is proved to account for every item on its normal exit (fallback exit: known finding); "
                      "per-rule match methods are not under contract",
                trusted=TRUSTED,
                explanation="[P] tokenisers, label/name extraction, Program.match item accounting; [B] cross-checks on CPython; see DESIGN 6/C02",
                witnesses=["c02_units_dropped_around_anonymous_main"]),
    "C06": dict(level="other",
                claim="exception-type contracts: Program.__new__ lets only FortranSyntaxError out (given the stated contract of the parse "
                      "below it), FortranSyntaxError construction cannot raise IndexError under the line bookkeeping invariant, reader "
                      "diagnostics must not end the process (known finding: reader.error exits)",
                trusted=TRUSTED + "; [A] the parse below Program raises only fparser exceptions",
                explanation="[P] F1, U1, R17; whole-parser escape freedom only for functions under contract",
                witnesses=["c06_end_name_mismatch_exits", "c06_dangling_construct_name_exits"]),
    "C09": dict(level="other",
                claim="on every normal and exceptional exit of the only two functions that open scopes (BlockBase.match, "
                      "Main_Program0.match) the scope stack is as at entry and no symbol table of the failed parse remains; symbol-table "
                      "operations proved against the ghost stack; one clause (pre-existing same-named table is lost) is a known finding",
                trusted=TRUSTED,
                explanation="[P] T1-T6, U8a, F3 over ghost scope stack tied to _current_scope/_parent by REP; rule-call protocol G3 assumed for callees",
                witnesses=["c09_internal_syntax_error_leaves_scope", "c09_main_program0_leaves_scope", "c09_failing_parse_removes_existing_table"]),
}
