"""Which units decide which property.  Proof units come from the `serves`
lists of the contracts; this file adds enumerations, bounded-only units,
witness scenarios, the claimed level and the per-property assumptions."""

TRUSTED = ("pyvc VC generator (home-made; cross-checked, no trusted kernel), SMT solvers cvc5 1.0.3 / z3 4.8.12 / z3 5.1.0, "
           "CPython semantics of the modelled str/list/dict operations, the trusted protocol contracts proto:* (G3) "
           "and the regex / library axioms listed in the evidence")

PROPS = {
    "C02": dict(level="other",
                claim="the tokenisers every rule goes through (_next_quote, splitquote) are proved lossless and quote-exact for all "
                      "inputs; Program.match is proved to account for every item of the input on every normal exit (after the repair of its fallback); SequenceBase.match "
                      "is proved to build one node per entry in order; the lexical content of the printed text is compared with the source on a program "
                      "corpus (bounded); the generic rule bases (match and tostr) and, among the rule-specific methods of Fortran2003.py, 65 tostr "
                      "and 22 match(string) methods are proved to hand on / print every part of their text (the remaining rule-specific methods are not under contract)",
                trusted=TRUSTED,
                explanation="[P] tokenisers, label/name extraction, Program.match item accounting, rule bases, statement-level tostr / match(string) contracts (contracts/small_batch.py); [B] lexical content of printed "
                            "text vs source (bounded_tokens.py), layout independence of the reader items (bounded_layout.py)",
                enum=["bounded_tokens.py", "bounded_layout.py --only C04", "bounded_harvest.py --only C02"],
                witnesses=["c02_blanks_of_a_literal_in_a_function_prefix", "c02_generic_binding_without_blank_after_arrow", "c02_function_suffix_reordered", "c02_group_equal_to_the_content_of_an_earlier_group", "c02_tab_inside_character_literal_is_expanded", "c02_statement_after_leading_semicolon_is_lost", "c02_units_dropped_around_anonymous_main", "c02_char_selector_placeholder_leak", "c02_char_selector_kind_len_reordered",
                           "c02_semicolon_join_lowercases_names", "c02_initialiser_after_parenthesised_char_length"]),
    "C06": dict(level="other",
                claim="exception-type contracts: Program.__new__ lets only FortranSyntaxError out (given the stated contract of the parse "
                      "below it), FortranSyntaxError construction cannot raise IndexError under the line bookkeeping invariant, reader "
                      "diagnostics must not end the process (known finding: reader.error exits), FortranReaderBase.next lets only StopIteration out; "
                      "a deterministic token-mutation corpus is parsed and every escape other than FortranSyntaxError reported (bounded)",
                trusted=TRUSTED + "; [A] the parse below Program raises only fparser exceptions",
                explanation="[P] F1, U1, R17, R10 (next); [B] token-mutation corpus (bounded_garbage.py); whole-parser escape freedom only for functions under contract",
                enum=[("enum_frame.py", ["frame.exits", "frame.decode"]), "bounded_garbage.py"],
                witnesses=["c06_end_name_mismatch_exits", "c06_dangling_construct_name_exits", "c06_kind_selector_too_short",
                           "c06_use_only_dtio_generic_spec", "c06_hollerith_length_with_blank", "c06_component_decl_assertion",
                           "c06_deallocate_assertion", "c06_array_constructor_empty_item", "c06_named_end_of_unnamed_unit", "c06_edit_descriptor_without_width",
                           "c06_cray_pointer_without_pointee", "c06_identifier_collides_with_placeholder"]),
    "C09": dict(level="other",
                claim="on every normal and exceptional exit of the only two functions that open scopes (BlockBase.match, "
                      "Main_Program0.match) the scope stack is as at entry and no symbol table of the failed parse remains; symbol-table "
                      "operations proved against the ghost stack; one clause (pre-existing same-named table is lost) is a known finding; "
                      "failing parses of one- and multi-unit sources enumerated against the table registry (tables of earlier units remain: known finding)",
                trusted=TRUSTED,
                explanation="[P] T1-T6, U8a, F3 over ghost scope stack tied to _current_scope/_parent by REP; rule-call protocol G3 assumed for callees",
                enum=["enum_registries.py --only C09", "bounded_trees.py --only C09", ("enum_frame.py", ["frame.inventory", "frame.scope_calls"]),
                      ("enum_block_table.py", ["F12.table#start", "F12.table#flags", "F12.table#labelled"])],
                witnesses=["c09_system_exit_leaves_the_scope_open", "c09_internal_syntax_error_leaves_scope", "c09_main_program0_leaves_scope", "c09_failing_parse_removes_existing_table",
                           "c09_tables_of_earlier_units_remain_after_failure"]),
    "C08": dict(level="other", enum=["enum_block_table.py", "bounded_trees.py --only C08"],
                claim="BlockBase.match proved to return a block with an end class only if its END was found with agreeing names and labels "
                      "(when the caller asks for the check); call-site table of the 35 block rules enumerated against the constructs named in the "
                      "property (rules without a name check: known findings); Program.match accepts only exhausted input; "
                      "structural deletions / insertions of construct lines and single-parenthesis edits over the statement corpus must be rejected (bounded)",
                trusted=TRUSTED,
                explanation="[P] U8c/d/e, U8b restore, F2; [E] F12 table; [B] ill-nested and unbalanced-parenthesis variants (bounded_trees.py)",
                witnesses=["c08_interface_end_name_mismatch", "c08_subroutine_end_name_mismatch", "c08_labelled_do_end_name_mismatch",
                           "c08_stray_end_do_inside_labelled_do", "c08_labelled_do_without_terminator", "c08_generic_spec_with_surplus_parenthesis", "c08_implicit_spec_with_surplus_parenthesis",
                           "c08_procedure_declaration_drops_text"]),
    "C15": dict(level="other", enum=["enum_sentinels.py", "bounded_layout.py --only C15"],
                claim="replace_omp_sentinels proved to overwrite exactly the two sentinel characters with blanks (length and every other column "
                      "unchanged); get_single_line proved to apply it to the normalised line before the line is stored or seen by anyone "
                      "(fixed form, option on); the three sentinel patterns enumerated against the column rules",
                trusted=TRUSTED,
                explanation="[P] R11, R7 placement, R9a (nested reader keeps the option); [E] R12 patterns; free-form placement inside get_source_item not under contract",
                witnesses=["c15_sentinel_statement_first_in_anonymous_main_program"]),
    "C16": dict(level="other", enum=[("enum_block_table.py", ["F12.scoping", "F12.table#start", "F12.table#flags", "F12.table#labelled"]), ("enum_frame.py", ["frame.scope_calls"]), "bounded_scopes.py"],
                witnesses=["c16_block_inside_nonblock_do_gets_two_tables", "c16_derived_type_declaration_does_not_shadow"],
                claim="symbol-table operations proved (enter/exit/remove/lookup of tables over the ghost stack), scope entry in BlockBase.match "
                      "proved balanced; the scoping statements are exactly the six of the property (enumerated)",
                trusted=TRUSTED,
                explanation="[P] T1-T8 (incl. SymbolTable.lookup, add_use_symbols), U8a, F9 Intrinsic_Function_Reference.match; [E] scoping class set, scope call sites; [B] generated scope trees (bounded_scopes.py)"),
    "C17": dict(level="other", enum=["enum_registries.py --only C17", "bounded_harvest.py --only C17"],
                claim="registry inclusion f2003 within f2008 enumerated on the real ParserFactory output; 2008-only rules absent from the 2003 "
                      "registry; the three Fortran 2008 rules that delegate to their 2003 "
                      "rule are proved to return the 2003 result whenever there is one; replaced constituents keep the 2003 alternatives (enumerated); "
                      "program-level refinement compared on a statement corpus (differences: known findings)",
                trusted=TRUSTED,
                explanation="[P] F17 (Loop_Control, Format_Item, Proc_Decl of Fortran2008); [E] P2, replaced constituents; [B] P3 at program level on a fixed corpus",
                witnesses=["c17_open_without_unit", "c17_procedure_stmt_text_differs"]),
    "C10": dict(level="other", enum=["bounded_trees.py --only C10", "bounded_harvest.py --only C10"],
                claim="node construction and navigation contracts: Base.__new__ statement branch stores the consumed item on the node, the parse cache "
                      "returns the identical object per (item, class), get_root returns an ancestor without parent, BlockBase.match accounts for every "
                      "consumed item in content order",
                trusted=TRUSTED,
                explanation="[P] U3b, R20, U5 get_root/children, _set_parent, Base.__init__, BlockBase.init, U8f, SequenceBase.match (no node twice); [B] well-formedness of catalogue trees; walk not under contract"),
    "C11": dict(level="other", enum=["bounded_layout.py --only C11", "bounded_trees.py --only C11"],
                claim="comment handling contracts: Comment.__new__ consumes exactly one comment item or restores the reader, Comment/Directive.init keep "
                      "the comment text and item, BlockBase.match restores every consumed item on failure and keeps content in item order",
                trusted=TRUSTED,
                explanation="[P] F4, F3 (add_comments_includes_directives, match_comment_or_include), U8b/f, handle_inline_comment; [B] comment placements incl. comments inside continued literals",
                witnesses=["c11_inline_directive_after_a_literal_becomes_a_directive_node"]),
    "C12": dict(level="other", enum=["bounded_layout.py --only C12", ("bounded_layout.py --only C05", ["reader#fixed."]), ("enum_block_table.py", ["F12.table#reader_rule"])],
                claim="put-back half proved: physical-line stack (put/get_single_line, get_next_line keep the count invariant), item queue (put_item "
                      "prepends to the innermost reader), rule calls that report no match leave the item stream unchanged (Base.__new__, Comment, "
                      "BlockBase.match); cpp-directive items carry the exact span of the lines taken",
                trusted=TRUSTED,
                explanation="[P] R7, R9a, U3b, U8b, R14 integers; delivery half of free/fixed statements not yet under contract",
                witnesses=["c14_directive_backslash_at_eof", "c14_directive_with_semicolon", "c14_directive_before_anonymous_main_program", "c14_directive_between_shared_label_do_statements"]),
    "C14": dict(level="other", enum=["bounded_trees.py --only C14"],
                claim="a '#' line is recognised exactly when its first non-blank character is '#' (not pyf); the reader's directive branch returns "
                      "one CppDirective item whose span is the physical lines taken, without exception at end of input",
                trusted=TRUSTED,
                explanation="[P] R13, R14, F3 (the collector takes every leading comment/include/directive in any order); [B] directive insertion at every boundary, also among retained comments; Cpp_* rules not under contract",
                witnesses=["c14_include_with_angle_brackets_is_reprinted_with_quotes", "c14_comment_after_ifdef_is_rejected", "c14_directive_between_components_splits_the_component_part", "c14_directive_backslash_at_eof", "c14_directive_with_semicolon", "c14_directive_before_anonymous_main_program", "c14_directive_between_shared_label_do_statements"]),
    "C18": dict(level="other", enum=["bounded_trees.py --only C18", "bounded_harvest.py --only C18"],
                claim="deep-copy protocol: Base.__getnewargs__ returns (string, None, True) and every class with its own __new__ (Base, Comment, "
                      "Directive; Program delegates) returns a fresh uninitialised instance for those arguments without touching a reader",
                trusted=TRUSTED + "; CPython copy/pickle protocol (reconstruction through __new__(*__getnewargs__()) then __dict__ copy)",
                explanation="[P] U3a, U4, F4 deep-copy exits and the HAS_STRING invariant of Comment/Directive.init",
                witnesses=["c18_deepcopy_with_comment", "c18_tree_from_file_reader_cannot_be_copied"]),
    "C20": dict(level="other", enum=["bounded_trees.py --only C20"],
                claim="mechanisms that keep parsing effort polynomial: the per-item parse cache evaluates a string rule at most once per (item, class) "
                      "(ghost evaluation counter), the labelled-DO early abort restores the reader and returns at once",
                trusted=TRUSTED,
                explanation="[P] R20 with ghost counter, U8g as part of U8b; [B] constructor-call counts for 40 size families (three are exponential: known findings); global bound not decided"),
    "C03": dict(level="other", enum=["bounded_expr.py"],
                claim="the operator table of the 12 expression levels (operand classes, operator pattern, split direction, chaining order) is "
                      "enumerated against R702-R723 on the real source; grouping of every expression with up to 2 (quick) / 3 (thorough) operators "
                      "compared with the intended tree and an independent reference parser (bounded); BinaryOpBase.match and UnaryOpBase.match "
                      "are proved to split at the occurrence their direction flag selects, to hand each side to its rule and to decline only for the stated reasons; "
                      "one class of valid inputs is rejected (known finding)",
                trusted="reference precedence parser spec/reference.py written from the standard; bounded expression depth",
                explanation="[P] U11a BinaryOpBase.match (pattern and string operators), UnaryOpBase.match; [E] F7 table; [B] Expr vs reference; Pattern.rsplit/lsplit trusted (regex split)",
                witnesses=["c03_identifier_ending_in_digit_e_is_taken_for_an_exponent", "c03_defined_binary_op_then_dotted_operator"]),
    "C04": dict(level="other", enum=["bounded_layout.py --only C04,C12"],
                claim="label and construct-name extraction and the quote-aware tokenisers are proved; the free-form continuation logic is decided by a "
                      "bounded layout-independence check (every continuation point, leading-& choice, comment/blank insertion, ';' joins over 8 statements)",
                trusted=TRUSTED + "; bounded layout space",
                explanation="[P] R3, R4, S1, S2, handle_inline_comment; [B] layouts (bounded_layout.py); get_source_item free branch not under contract",
                witnesses=["c04_continuation_between_construct_name_and_colon", "c04_ampersand_inside_continued_literal"]),
    "C05": dict(level="other", enum=["bounded_layout.py --only C05"],
                claim="the fixed-form column predicates (_is_fix_cont, _is_fix_comment) and line normalisation are proved; detection and the fixed-form "
                      "reader branch are decided by a bounded check over fixed renderings (continuation mark, comment style, cut position); three "
                      "classes of sources are mis-detected (known findings)",
                trusted=TRUSTED + "; bounded rendering space",
                explanation="[P] R1, R2, R7; [B] detection + fixed branch",
                witnesses=["c05_blanks_at_the_end_of_a_continued_fixed_form_literal_are_lost", "c05_fixed_comment_with_ampersand", "c05_labelled_first_statement", "c05_first_statement_starting_with_c",
                           "c05_zero_in_column_6_is_not_a_continuation"]),
    "C01": dict(level="other", enum=["bounded_trees.py --only C01", "bounded_harvest.py --only C01"],
                claim="round trip decided on a catalogue of programs (print, re-parse, same tree, same text; both standards, three comment modes); "
                      "label / construct-name re-extraction proved; the generic match/tostr lemmas are not yet under contract",
                trusted=TRUSTED + "; bounded catalogue",
                explanation="[B] round trip of the catalogue and of one program per corpus statement; [P] R3, R4, StmtBase/BlockBase.tofortran",
                witnesses=["c01_p_edit_descriptor_without_comma_changes_tree_on_reparse"]),
    "C07": dict(level="other", enum=["bounded_trees.py --only C07"],
                claim="message construction proved (FortranSyntaxError names linecount and quotes source_lines[linecount-1]; line bookkeeping invariant kept "
                      "by the line buffers); the location for every replaced statement of four catalogue programs checked on the real parser",
                trusted=TRUSTED + "; bounded catalogue",
                explanation="[P] U1, G2 (R7, every physical line drawn is cached and counted); [B] garbage at every statement, with control characters and continued statements before it",
                witnesses=["c07_error_inside_include_file_is_located_at_the_include_line"]),
    "C13": dict(level="other", enum=["bounded_trees.py --only C13", ("enum_frame.py", ["frame.inventory"])],
                claim="put_item proved to reach the innermost include reader; FortranReaderBase.next proved to open the first match of the include path with the "
                      "parent's options and to hand an unresolved include on unchanged; include resolution compared with inlined text for every split of a small "
                      "program into main text and include file (file and string readers, two include directories, first match wins); unresolved include kept",
                trusted=TRUSTED + "; bounded catalogue; file system behaviour",
                explanation="[P] R9a, R10 (next); [B] include scenarios in temporary directories (splits, histories, reader options)",
                witnesses=["c13_include_file_with_lines_starting_with_c_is_read_as_comments", "c13_include_redetects_format", "c13_include_drops_omp_conditional_option", "c13_directory_named_like_the_include_file"]),
}
