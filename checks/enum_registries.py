"""P2 [E]: the rule registry built by the real ParserFactory.create.

C09: after create(std) the registry (Base.subclasses) and the symbol tables are a function of std
     alone - for every history of earlier create() calls and parses up to a stated length the
     snapshot equals the one taken in a fresh process.
C17: every alternative registered under f2003 is registered under f2008 under the same rule name,
     as the same class or the same-named overriding class, in the same relative order; overriding
     classes keep the 2003 use_names/subclass_names; 2008-only rule classes are absent from the
     2003 registry; the 2008 intrinsic tables extend the 2003 ones.
"""
import itertools
import json
import re
import os
import subprocess
import sys
import time

REPO = os.environ.get("VERIF_REPO", "/repo")
if REPO != "/repo":
    sys.path.insert(0, os.path.join(REPO, "src"))
sys.dont_write_bytecode = True


def snapshot():
    from fparser.two.utils import Base
    from fparser.two.symbol_table import SYMBOL_TABLES
    reg = {k: [(c.__module__, c.__name__) for c in v] for k, v in sorted(Base.subclasses.items())}
    return dict(registry=reg, tables=sorted(SYMBOL_TABLES._symbol_tables), scope=SYMBOL_TABLES.current_scope is not None)


def fresh(std):
    code = ("import sys, json; sys.path.insert(0, %r); import enum_registries as e; "
            "from fparser.two.parser import ParserFactory; ParserFactory().create(std=%r); print(json.dumps(e.snapshot()))"
            % (os.path.dirname(os.path.abspath(__file__)), std))
    p = subprocess.run([sys.executable, "-c", code], capture_output=True, text=True, env=dict(os.environ, PYTHONDONTWRITEBYTECODE="1"))
    if p.returncode != 0:
        raise RuntimeError(p.stderr[-2000:])
    return json.loads(p.stdout.strip().splitlines()[-1])


EXEC = ["x = 1", "call s", "call s(a, b)", "continue", "print *, i", "return", "stop", "stop 1", "stop 'msg'", "goto 10", "cycle", "exit",
        "open(file='x')", "open(unit=10, file='x')", "open(10, file='x', status='old')", "open(10)", "open(10, file='a', access='stream')",
        "close(10)", "read(10, *) x", "write(*, '(a)') 'hi'", "allocate(a(10))", "allocate(a(n), stat=ierr)", "allocate(x, source=y)",
        "deallocate(a)", "nullify(p)", "p => q", "x = sin(y) + max(a, b)", "where (a > 0) b = 1", "forall (i=1:n) a(i) = 0", "y(i) = f(z)",
        "if (a > 0) x = 1", "if (l) call s(a)", "if (x) 10, 20, 30", "write(*, *) a", "read *, a", "assign 10 to k", "pause",
        "a = [1, 2, 3]", "s = 'a' // 'b'", "l = .not. (a .and. b)", "x = 1.0e-3 ** 2", "inquire(unit=10, exist=l)", "rewind 10", "wait(10)"]
SPEC = ["integer :: a", "integer, parameter :: n = 1", "real(kind=8), dimension(:), allocatable :: x", "character(len=10) :: s",
        "type(t) :: v", "real, pointer :: p => null()", "logical, save :: flag", "integer a, b", "integer :: a(10)", "real :: x = 1.0",
        "type(t), dimension(3) :: u", "class(t), allocatable :: o", "procedure(f), pointer :: p", "procedure(f), pointer, nopass :: p",
        "integer, dimension(3) :: d = (/1, 2, 3/)", "implicit none", "use m2", "use m2, only: a", "private", "public :: a", "save",
        "external f", "intrinsic sin", "data a /1/", "common /c/ a", "equivalence (a, b)", "namelist /n/ a", "parameter (k = 2)",
        "real(kind=kind(1.0d0)) :: x", "integer(kind=selected_int_kind(9)) :: i", "real(kind(1.0d0)) :: y", "character(len=len_trim(s)) :: t",
        "character(len=*), parameter :: c = 'a''b'", "integer(8) :: big", "real*8 r8", "complex(kind=kind(1.0)) :: z", "logical(kind=4) :: l4",
        "double precision d", "integer, dimension(:,:), pointer :: p2 => null()", "real, dimension(size(a)) :: b", "character*10 name",
        "character(len=3, kind=1) :: ck", "real :: m(2, 2) = reshape((/1., 2., 3., 4./), (/2, 2/))",
        "dimension a(3)", "allocatable :: z", "pointer :: z", "target :: z", "optional :: z", "intent(in) :: z", "volatile z", "sequence"]
EXEC += [
    "allocate(a(n), b(2, 3), stat=ierr, errmsg=msg)", "allocate(real :: p)", "allocate(character(len=5) :: cs)", "deallocate(a, b, stat=ierr)",
    "nullify(p, q)", "p(1:) => q", "p(1:2, 1:3) => q", "goto (10, 20, 30) k", "go to 10", "if (x) 10, 20, 30", "return 1", "stop 'done'", "stop 123",
    "read(5, *, iostat=ios, err=10, end=20) a, b", "read(unit=5, fmt='(a)', advance='no', size=n, eor=30) line", "read(10, rec=3) buf",
    "read(nml=grp)", "read '(i3)', k", "write(*, fmt=100, iostat=ios) (v(i), i = 1, n)", "write(6, nml=grp)", "write(unit=u, rec=2, err=10) buf",
    "print '(a, i3)', 'k =', k", "print 100, a, b", "open(unit=10, file='x', status='old', action='read', iostat=ios, err=10)",
    "open(10, file=fn, form='unformatted', access='direct', recl=80)", "close(unit=10, status='delete', iostat=ios)", "inquire(file='x', exist=l, opened=o, number=n)",
    "inquire(iolength=k) a, b", "backspace 10", "backspace(unit=10, iostat=ios)", "endfile 10", "endfile(10, err=20)", "rewind(unit=10)", "flush(10)", "flush 10",
    "where (a > 0) b = sqrt(a)", "forall (i = 1:n, j = 1:m, a(i, j) /= 0) b(i, j) = 1 / a(i, j)", "call s(x, *10, *20)", "call obj%method(a, b=c)", "call s()",
    "x = obj%comp(2)%inner(1:3)", "s(2:4) = 'abc'", "c = (1.0, -2.0e3)", "z = cmplx(a, b, kind=8)", "a(:, 1) = [(i * 2, i = 1, n)]", "b = reshape([1, 2, 3, 4], [2, 2])",
    "l = a .eqv. b .neqv. c", "k = ishft(i, -2) + ibits(j, 1, 3)", "x = -a ** 2 ** 3", "x = a / b / c * d", "t = 'it''s' // \"say \"\"hi\"\"\"", "y = 1_8 + 2.5_dp - .5e-3_qp",
    "entry e2(a, b)", "assign 10 to k", "pause 'wait'", "continue",
]
SPEC += [
    "common a, b /blk/ c, d", "common // e, f", "common /b1/ g(10), h /b2/ k", "common /b3/ m, /b4/ n", "data a, b /1, 2/", "data (v(i), i = 1, 3) /3 * 0.0/", "data x /1.0/ y /2.0/",
    "data s /'ab'/, t /.true./", "equivalence (a, b), (c(1), d(2, 3))", "namelist /g1/ a, b /g2/ c", "namelist /g3/ d, /g4/ e", "implicit real (a-h, o-z), integer (i-n)",
    "implicit double precision (d)", "implicit character(len=4) (c)", "implicit type(t) (u-w)", "dimension a(10), b(2, 0:5), c(*)", "allocatable :: a(:), b(:, :)", "pointer :: p, q(:)",
    "target :: t1, t2(10)", "parameter (pi = 3.14159, n = 10)", "intent(inout) :: a, b", "optional a, b", "save a, /blk/, b", "save :: c", "external f, g", "intrinsic :: sin, cos",
    "volatile :: v1, v2", "asynchronous a1", "protected :: pr", "value :: va", "bind(c, name='cname') :: cv", "bind(c) :: /blk/", "import :: a, b", "import", "public", "private :: x, operator(+), assignment(=)",
    "public :: operator(.myop.)", "enum, bind(c)\nenumerator :: red = 1, green\nenumerator blue\nend enum", "integer, parameter :: k = selected_real_kind(12, 200)",
    "real(8), dimension(3, 3), target, save :: m = 0.0", "character(len=*), intent(in), optional :: name", "character(len=10, kind=1), dimension(5) :: names", "character(*) cs",
    "type(t), pointer :: head => null()", "class(*), pointer :: any", "class(t), intent(inout) :: self", "logical, dimension(:), allocatable :: mask", "complex(kind=8) :: z = (1.0_8, 0.0_8)",
    "integer :: a = 1, b(3) = (/1, 2, 3/), c", "real x, y(10), z*8", "double precision, external :: dnrm2", "procedure(), pointer :: pp", "procedure(real), pointer :: pr => null()",
    "procedure(iface), bind(c) :: cproc", "use, intrinsic :: iso_c_binding", "use, non_intrinsic :: mymod, only: a, b => c", "use m3, x => y, z => w", "use m4, only: operator(.op.), assignment(=)",
    "use m5, only:", "type, abstract :: base\nend type base", "type, extends(base), public :: child\ninteger :: k\nend type child", "type :: node\nsequence\ninteger :: v\ntype(node), pointer :: next => null()\nend type node",
    "type, bind(c) :: ct\ninteger(c_int) :: i\nend type ct", "type :: tb\ninteger :: k\ncontains\nprocedure :: p1\nprocedure, pass(self), public :: p2 => impl\nprocedure(iface), deferred :: p3\ngeneric :: g => p1, p2\ngeneric, private :: operator(+) => p1\nfinal :: cleanup\nend type tb",
    "type :: pt(k, n)\ninteger, kind :: k = 4\ninteger, len :: n\nreal(k) :: v(n)\nend type pt", "type(pt(8, 10)) :: pv", "type(pt(k=4, n=:)), allocatable :: pa",
    "interface\nsubroutine ext(a)\nreal a\nend subroutine ext\nend interface", "abstract interface\nfunction fi(x) result(r)\nreal x, r\nend function fi\nend interface",
    "interface operator(.dot.)\nmodule procedure dotp\nend interface operator(.dot.)", "interface assignment(=)\nmodule procedure assign_t\nend interface", "interface read(formatted)\nmodule procedure rf\nend interface",
]
# every optional part of a rule at least once (steps, strides, masks, attribute lists with an empty interface, renames ...)
EXEC += [
    "do i = 1, 10, 2\nx = i\nend do", "do 10 i = n, 1, -1\n10 continue", "do while (i < n .and. .not. done)\ni = i + 1\nend do", "do\nexit\nend do",
    "print *, (a(i), i = 1, 10, 2)", "print *, ((m(i, j), i = 1, 3, 2), j = 1, 2)", "write(*, *) (a(i), b(i), i = 1, n, k)", "read(5, *) (v(i), i = 1, n, 2)",
    "v = (/ (i, i = 1, 9, 3) /)", "v = [((i + j, i = 1, 2), j = 1, 6, 2)]", "v = [integer :: 1, 2]", "v = (/ real(8) :: (x(i), i = 1, n, 2) /)",
    "forall (i = 1:n:2, j = 1:m, a(i, j) > 0) b(i, j) = 1", "forall (i = 1:n:2)\na(i) = 0\nend forall", "b = a(1:10:2)", "b = a(:, ::2)", "b = a(:n, m:)", "b = a(::k)",
    "t = s(2:)", "t = s(:3)", "t = s(i:j)(1:1)", "t = names(2)(1:3)", "x = obj%arr(1:n:2)%f", "associate (z => a(1:n:2), w => x + 1)\nz = w\nend associate",
    "select case (k)\ncase (1, 3:5, 9:)\nx = 1\ncase (:0)\nx = 2\ncase default\nx = 3\nend select", "select case (c)\ncase ('a':'f', 'x')\nx = 1\nend select",
    "select type (q => p)\ntype is (integer)\nx = 1\ntype is (real(8))\nx = 2\nclass is (t)\nx = 3\nclass default\nx = 4\nend select",
    "where (m)\na = 1\nelsewhere (m2)\na = 2\nelsewhere\na = 3\nend where", "if (a) then\nx = 1\nelse if (b) then\nx = 2\nelse\nx = 3\nend if",
    "call s(a(1:n:2), b=x(:, 1), c=(/1, 2/))", "call s(f(g(x), y=2), *10)", "x = f(a=1, b=g(2))", "allocate(a(0:n - 1, -1:1), source=b, stat=ierr, errmsg=msg)", "allocate(t :: obj)",
    "allocate(character(len=n) :: cs(3))", "allocate(a(n), mold=b)", "open(newunit=u, file='f', status='replace', form='formatted', position='append', iostat=ios, iomsg=msg)",
    "close(u, status='keep', err=10, iomsg=msg)", "read(unit=u, fmt=*, iostat=ios, iomsg=msg, end=10) a", "write(u, '(3(i2, 1x))', advance='no', err=10) k",
    "write(unit=*, fmt='(a)', iostat=ios) 'x'", "inquire(unit=u, opened=o, named=nm, name=fn, access=ac, form=fm, recl=rl, nextrec=nr, iostat=ios)", "wait(unit=u, id=k, iostat=ios)",
    "stop", "error stop", "return", "goto 10", "x = +a", "x = -(-a)", "l = a > b .or. c <= d .and. .not. e", "l = a == b .eqv. c /= d", "c = 'a' // 'b' // trim(s)", "x = a ** (-b)",
    "x = 1.0d0 + 2.5e-3 - 3. + .5 - 1e5 + 0.1_dp", "k = 12_8 + b'101' + o'17' + z'ff'", "l = .true._4 .and. .false.", "z = (1.0, 2.0) * (a, b)", "nullify(obj%p, q(1)%r)", "p => obj%q(1)%r", "p => null()",
]
SPEC += [
    "data (c(i), i = 1, 9, 2) / 5*7 /", "data ((m(i, j), i = 1, 3, 2), j = 1, 2) / 4*0 /", "data a(1), a(2) / 1, 2 /, b / 3*0.0 /", "data t%k / 4 /", "data z / (1.0, 2.0) /", "data k / z'ff' /, n / -1 /",
    "procedure(), pointer :: pe => null()", "procedure(), pointer, save :: ps", "procedure(real), save :: q2", "procedure(f) :: r1, s1 => null()", "procedure(f), public, pointer :: pq => g",
    "integer, dimension(0:n - 1, -1:1) :: lb", "real, dimension(:, :, :), allocatable, save :: cube", "integer, parameter, dimension(2) :: pd = (/1, 2/)", "character(len=:), allocatable :: ds",
    "character(len=*, kind=1), parameter :: cp = 'x'", "character(kind=1, len=3) kc", "character*(*) cstar", "character*(n + 1) cn", "character c1*3, c2*(*), c3(2)*4", "real*4 r4, r8*8",
    "integer(kind=4), intent(in), value :: iv", "real, intent(out), dimension(:), contiguous :: co", "type(t), intent(in out), target :: tt", "real, volatile, asynchronous :: va2",
    "integer, protected, bind(c, name='gv') :: gv", "real, external, pointer :: fp", "use m6, only: a, b => c, operator(+), assignment(=), d", "use, intrinsic :: iso_c_binding, only: c_int, cl => c_long",
    "implicit integer(kind=8) (i-k), real*8 (x), logical (l)", "parameter (a = 1, b = (/1, 2/), c = 'x')", "equivalence (a(1), b), (c, d(2), e(1, 1))", "common /blk/ a(3), b /blk2/ c(2, 2)", "namelist /nl/ a, b, c /nl2/ d",
    "save", "intent(in out) :: io1", "dimension :: dd(3)", "intrinsic sin, cos", "type, extends(base), abstract, private :: ab\nend type ab",
    "type :: tbp\ncontains\nprivate\nprocedure, nopass :: np\nprocedure, non_overridable, pass :: no => impl2\nprocedure(iface), deferred, pass(me) :: df\ngeneric, public :: assignment(=) => asg\ngeneric :: read(formatted) => rf\nfinal :: f1, f2\nend type tbp",
    "type :: comp\ninteger, dimension(3) :: d3 = 0\nreal, pointer :: rp(:) => null()\nprocedure(iface), pointer, nopass :: pc => null()\nprocedure(), pointer, pass(x) :: pd\ntype(comp), allocatable :: child(:)\ncharacter(len=8) :: nm = 'x'\nend type comp",
    "interface gen\nmodule procedure a1, a2\nprocedure a3\nend interface gen", "interface\nfunction ff(x) result(r) bind(c, name='ff')\nreal, value :: x\nreal :: r\nend function ff\nend interface",
    "interface\npure elemental real function pe2(x)\nreal, intent(in) :: x\nend function pe2\nrecursive subroutine rs(n)\ninteger n\nend subroutine rs\nend interface",
    "enum, bind(c)\nenumerator :: a1 = 1, a2, a3 = 5\nend enum",
]
# keyword arguments in an order other than the usual one (the unit last, the format first ...)
EXEC += ["open(file='x', unit=10, status='old')", "open(status='old', file=fn, unit=lun)", "open(iostat=ios, err=10, unit=10, file='x')", "close(status='keep', unit=10)", "close(iostat=ios, unit=u)",
         "read(fmt=*, unit=5) a", "read(iostat=ios, unit=5, fmt='(i3)') k", "write(fmt=*, unit=6) a", "write(iostat=ios, unit=6, fmt=*) a", "write(advance='no', fmt='(a)', unit=u) s",
         "inquire(exist=l, file='x')", "inquire(opened=o, unit=10)", "rewind(iostat=ios, unit=10)", "backspace(err=10, unit=10)", "endfile(iostat=ios, unit=10)", "flush(iostat=ios, unit=10)",
         "wait(iostat=ios, unit=10)", "deallocate(a, b, errmsg=msg, stat=ierr)", "call s(b=1, a=2)", "x = f(b=1, a=2)"]
EXEC += ["call obj%arr(i + 1, 2)%method(a)", "call tab(k + 1, 2)%run()", "x = tab(k + 1, 2)%f(a, b)", "read(unit=u(i + 1, 2), fmt=*) a", "write(unit=lun(1, k), fmt=fm(2, 3)) a",
         "print fmts(i + 1, 2), a", "open(unit=u(1, 2), file=names(i, j))", "if (m(i + 1, 2) > 0) call s(q(1, 2))", "where (msk(:, k + 1)) v(:, k + 1) = 0", "forall (i = lo(1, 2):hi(1, 2)) a(i) = 0",
         "allocate(w(n(1, 2)), stat=st(1, 2))", "deallocate(w, stat=st(1, 2))", "nullify(pt(i + 1, 2)%p)", "pt(i + 1, 2)%p => tg(1:n(1, 2))", "goto (10, 20) sel(i + 1, 2)", "stop"]
SPEC += ["type :: cl\ncharacter :: name*20\ncharacter :: code*4 = 'none'\ncharacter :: tags(3)*8\ncharacter :: both(2)*(n + 1) = 'x'\nreal :: r1, r2(3), r3 = 1.0\ntype(cl), pointer :: nx => null(), pv(:)\nend type cl",
         "character :: w1*20, w2(3)*8, w3*(n + 1) = 'x', w4*(*)", "character*8 :: x1, x2*4, x3(2)*2"]
# labelled DO loops sharing a label / ended by an action statement, with statements after the inner DO (indentation of the printed text)
EXEC += ["do 10 i = 1, 2\ndo 10 j = 1, 2\nx = 1\n10 a(i, j) = 0", "do 20 i = 1, 2\nx = 1\ndo 20 j = 1, 2\ny = 2\n20 continue", "do 30 i = 1, 2\ndo 40 j = 1, 2\ny = 2\n40 a(j) = 0\nz = 3\n30 b(i) = 0",
         "do 50 i = 1, 2\nif (i > 1) then\nx = 1\nend if\n50 end do"]
# statements chosen from a coverage run of the corpus over Fortran2003.py: match / tostr branches that nothing reached
SPEC += ["real :: as1(3, *), as2(2:*), as3(*)", "character(len=*) :: cstar2(*)", "use m7, operator(.a.) => operator(.b.)", "use m8, only: operator(.c.) => operator(.d.), x1 => y1",
         "procedure(f), intent(in) :: pin", "procedure(f), optional, intent(inout) :: pio", "procedure(f), bind(c, name='cp') :: pbc", "procedure(f), private, save :: pps",
         "type, private :: tprv\ninteger :: k\nend type tprv", "type, public, bind(c) :: tpb\ninteger(c_int) :: k\nend type tpb", "type :: tq(k1, k2)\ninteger, kind :: k1, k2\nend type tq",
         "type :: tsb\ncontains\nprocedure :: a1 => b1, a2\nprocedure, nopass, private :: a3 => b3\nprocedure(if1), deferred, nopass :: a4, a5\nend type tsb",
         "integer, bind(c, name='bn') :: bnv", "bind(c, name='cb') :: /cblk/, cv2", "save", "integer, parameter :: kk(2) = [1, 2]",
         "namelist /nq/ a", "equivalence (a, b(1)), (c(2), d)", "intent(out) io2, io3", "dimension d1(2), d2(3, 3)", "implicit logical (l), complex (z)", "data a /1/, b /2*3/, c(1) /.true./",
         "common /c1/ a, b(2) /c2/ c", "parameter (p1 = 1)", "allocatable a1(:), a2", "pointer p1, p2(:)", "target t1(2), t2", "volatile v3, v4", "asynchronous as4, as5", "protected pr1, pr2", "value va1, va2",
         "external e1, e2", "intrinsic max, min", "optional o1, o2", "public p3, operator(.op.), assignment(=), read(formatted)", "private"]
EXEC += ["flush(unit=10, iostat=ios, iomsg=msg, err=10)", "entry e3(a, b) result(r3)", "entry e4", "entry e5()",
         "read 100, a, b", "read *, a, (v(i), i = 1, 3)", "read(5, 100) a", "read(5, fmt=100, iostat=ios) a", "print *", "print 100", "print '(a)'", "write(6, 100)", "write(*, *)",
         "forall (i = 1:3) a(i) = i", "forall (i = 1:3, j = 1:3, i /= j) a(i, j) = 0", "where (a > 0) a = 0", "goto (10, 20), k", "go to (10, 20) k + 1", "inquire(10, exist=l)", "inquire(file=fn, size=k)",
         "stop 12345", "call s(*10)", "return k + 1", "x = c(1:2)", "a = b%c%d(1)%e", "p => f(x)", "x = .myun. y", "x = a .mybin. b .mybin. c"]
EXEC += ["s = ck_'abc' // 1_'d'", "v = [integer ::]", "w = (/ real(8) :: /)"]
EXEC += ["entry e6() result(r6)", "entry e7() bind(c, name='e_seven')", "entry e8(a) bind(c)", "entry e9() result(r9) bind(c)", "entry e10(*, a)"]
EXEC += ["do, i = 1, n\nx = 1\nend do", "do 10, i = 1, n\n10 continue", "do, while (x > 0)\nx = x - 1\nend do", "do 20, while (k > 0)\n20 k = k - 1", "do 30 , i = 1, n, 2\n30 x = x + 1",
         "outer: do, i = 1, n\nx = 1\nend do outer"]
SPEC += ["type :: tgb\ncontains\nprocedure :: ab\nprocedure :: cd\ngeneric :: g =>ab, cd\ngeneric, public :: operator(+)=>ab\ngeneric::h=>cd\nend type tgb"]
IFACE = ["procedure f", "module procedure f", "module procedure f, g", "procedure :: f", "procedure :: f, g", "module procedure :: f", "subroutine s(a)\ninteger a\nend subroutine s",
         "function f(x)\nreal x\nend function f"]
IFACE += ["function f1(x) result(r) bind(c)\nreal x, r\nend function f1", "function f2(x) bind(c, name='ff') result(r)\nreal x, r\nend function f2", "real function f3(x) result(r)\nreal x\nend function f3",
          "pure elemental function f4(x)\nreal, intent(in) :: x\nend function f4", "recursive subroutine s5(a, *)\ninteger a\nend subroutine s5", "subroutine s6() bind(c, name='s_6')\nend subroutine s6",
          "character(len=5) function f7()\nend function f7", "type(tt) function f8()\nend function f8", "subroutine s9\nend subroutine"]
FORMATS = ["a // a", "i3, /, /, a", "a, :, :, i2", "2/, a", "i2, 3x, /, /, /", "1x, i5", "i5", "f10.3", "a", "3(i2, 1x)", "'text'", "e12.4", "2i5", "a, /, a", "i5.3, es12.4", "l1, g10.3", "tr2, tl1, t10"]
FORMATS += ["dt(8, 3), dt'n'(1), dt", "dt(1), a", "2(dt(4, 5))",
            "i5.3, b8, o4.2, z8.4", "f10.3, d12.4, e12.4e2, en12.4, es12.4e1, g10.3e2", "l1, a10, a", "t10, tl2, tr3, 5x", "ss, sp, s, bn, bz", "rd, rz, rn, rc, ru, rp", "dc, dp", "2p, f8.2", "dt, dt'x'(1, 2)",
            "2(i2, 3(f4.1, a)), i2", "'a''b', \"c\"", "i2, :, a", "*(i2, 1x)"]

VALID = "module m\ninteger :: a\ncontains\nsubroutine s\nend subroutine s\nend module m\n"
INVALID = "program p\nx = (\nend program p\n"


def do(step, factory):
    from fparser.common.readfortran import FortranStringReader
    if step in ("f2003", "f2008"):
        return factory.create(std=step)
    parser = do.parser
    try:
        parser(FortranStringReader(VALID if step == "valid" else INVALID))
    except BaseException:  # noqa
        pass
    return parser


def main(argv):
    tier = argv[argv.index("--tier") + 1] if "--tier" in argv else "quick"
    which = argv[argv.index("--only") + 1] if "--only" in argv else "all"
    t0 = time.time()
    from fparser.two.parser import ParserFactory
    failures, cases, samples = [], 0, []
    ref = {s: fresh(s) for s in ("f2003", "f2008")}
    ref = {s: json.loads(json.dumps(v)) for s, v in ref.items()}
    if which in ("all", "C09"):
        alphabet = ["f2003", "f2008", "valid", "invalid"]
        maxlen = 4 if tier == "thorough" else 3
        factory = ParserFactory()
        for n in range(0, maxlen + 1):
            for hist in itertools.product(alphabet, repeat=n):
                for final in ("f2003", "f2008"):
                    do.parser = factory.create(std="f2003")
                    for step in hist:
                        r = do(step, factory)
                        if step in ("f2003", "f2008"):
                            do.parser = r
                    factory.create(std=final)
                    cases += 1
                    snap = json.loads(json.dumps(snapshot()))
                    if snap != ref[final]:
                        diff = [k for k in set(snap["registry"]) | set(ref[final]["registry"])
                                if snap["registry"].get(k) != ref[final]["registry"].get(k)][:5]
                        if len(failures) < 80:
                            failures.append(dict(obligation="two.parser:ParserFactory.create#registry_is_function_of_std",
                                                 witness=dict(history=list(hist), final=final),
                                                 observed=dict(differing_rules=diff, tables=snap["tables"], scope_open=snap["scope"])))
                    elif len(samples) < 2 and n == maxlen:
                        samples.append(dict(history=list(hist), final=final, rules=len(snap["registry"])))
    if which in ("all", "C09"):
        # a failing parse leaves the set of symbol tables as it was and no scope open
        from fparser.common.readfortran import FortranStringReader
        from fparser.two.symbol_table import SYMBOL_TABLES
        failing = {
            "single_unit": INVALID,
            "second_unit": "module m2\nend module m2\nsubroutine s2\n x = = 1\nend subroutine s2\n",
            "nested_unit": "module m3\ncontains\nsubroutine s3\n x = = 1\nend subroutine s3\nend module m3\n",
            "third_unit": "subroutine a1\nend subroutine a1\nfunction a2()\nend function a2\nprogram a3\n x = (\nend program a3\n",
            "same_name_as_existing_table": "module m\n x = = 1\nend module m\n",
            "missing_end": "module m4\ncontains\nsubroutine s4\nend module m4\n",
        }
        for std in ("f2003", "f2008"):
            for pre in ([], ["valid"], ["invalid", "valid"]):
                for fname, fsrc in failing.items():
                    parser = ParserFactory().create(std=std)
                    for step in pre:
                        try:
                            parser(FortranStringReader(VALID if step == "valid" else INVALID))
                        except BaseException:  # noqa
                            pass
                    before = sorted(SYMBOL_TABLES._symbol_tables)
                    cases += 1
                    try:
                        parser(FortranStringReader(fsrc))
                        raised = False
                    except BaseException:  # noqa
                        raised = True
                    after = sorted(SYMBOL_TABLES._symbol_tables)
                    scope = SYMBOL_TABLES.current_scope
                    if not raised or after != before or scope is not None:
                        failures.append(dict(obligation="two.symbol_table:SYMBOL_TABLES#failing_parse_leaves_nothing_behind",
                                             witness=dict(std=std, before=pre, failing=fname, source=fsrc),
                                             observed=dict(raised=raised, tables_before=before, tables_after=after, scope_open=scope is not None)))
    if which in ("all", "C17"):
        r03, r08 = ref["f2003"]["registry"], ref["f2008"]["registry"]
        divergent = set()
        for name, alts in r03.items():
            cases += 1
            names08 = [c[1] for c in r08.get(name, [])]
            names03 = [c[1] for c in alts]
            it = iter(names08)
            ok = name in r08 and all(any(x == y for y in it) for x in names03)   # subsequence
            if not ok:
                # the 2008 rule may still accept a superset through more general alternatives:
                # decided behaviourally below (the property speaks about accepted sources, not class lists)
                divergent.add(name)
        # overriding classes keep the names the 2003 class uses
        from fparser.two import Fortran2003, Fortran2008
        import inspect
        for n8, c8 in inspect.getmembers(Fortran2008, inspect.isclass):
            c3 = getattr(Fortran2003, n8, None)
            if c3 is None or c3 is c8 or not inspect.isclass(c3):
                continue
            cases += 1
            for attr in ("subclass_names", "use_names"):
                a3, a8 = list(getattr(c3, attr, []) or []), list(getattr(c8, attr, []) or [])
                missing = [x for x in a3 if x not in a8]
                if missing:
                    divergent.add(n8)      # renamed / generalised constituents: decided behaviourally below
                    added = [x for x in a8 if x not in a3]
                    if len(missing) == 1 and len(added) == 1:
                        # a constituent replaced one-for-one (Action_Stmt_C824 -> Action_Stmt_C816, ...): every alternative the
                        # 2003 constituent offers must be offered by its 2008 replacement (by rule name)
                        old_alts = [x for x in (getattr(getattr(Fortran2003, missing[0], None), "subclass_names", []) or [])]
                        new_cls = getattr(Fortran2008, added[0], None) or getattr(Fortran2003, added[0], None)
                        new_alts = list(getattr(new_cls, "subclass_names", []) or [])
                        lost = [x for x in old_alts if x not in new_alts]
                        cases += 1
                        if lost:
                            failures.append(dict(obligation="two.Fortran2008#replaced_constituent_keeps_the_2003_alternatives",
                                                 witness=dict(rule=n8, f2003=missing[0], f2008=added[0]), observed=dict(lost_alternatives=lost)))
        # 2008-only classes are not registered under f2003
        only08 = [n for n, c in inspect.getmembers(Fortran2008, inspect.isclass)
                  if c.__module__.startswith("fparser.two.Fortran2008") and not hasattr(Fortran2003, n)]
        reg03_names = set(r03) | {c[1] for v in r03.values() for c in v}
        for n in only08:
            cases += 1
            if n in reg03_names:
                failures.append(dict(obligation="two.parser:ParserFactory.create#f2008_only_rules_absent_from_f2003",
                                     witness=dict(cls=n), observed=dict(registered=True)))
        for v in r03.values():
            for mod, n in v:
                if mod.startswith("fparser.two.Fortran2008"):
                    failures.append(dict(obligation="two.parser:ParserFactory.create#f2003_registry_has_no_2008_class",
                                         witness=dict(cls=n), observed=dict(module=mod)))
        samples.append(dict(f2008_only_classes=only08[:8], n=len(only08)))
        # P3 (bounded, at program level - what the property speaks about): every corpus statement, placed in
        # a program that the f2003 parser accepts, is accepted by the f2008 parser with the same text
        from fparser.common.readfortran import FortranStringReader
        from fparser.two.utils import FparserException

        def programs():
            for st in EXEC:
                yield "program p\n%s\nend program p\n" % st
                yield "subroutine s\ndo 10 i = 1, 3\n10 %s\nend subroutine s\n" % st
                yield "program p\nif (a) %s\nend program p\n" % st
            for st in SPEC:
                yield "module m\n%s\nend module m\n" % st
                yield "subroutine s\n%s\nend subroutine s\n" % st
                yield "module m\ntype t\n%s\nend type t\nend module m\n" % st
            for st in IFACE:
                yield "module m\ninterface g\n%s\nend interface g\nend module m\n" % st
            for st in FORMATS:
                yield "program p\n10 format(%s)\nend program p\n" % st
            # declarations of names that are also intrinsic names, followed by references (the two parsers have to agree
            # on what is a call of the intrinsic and what is the declared entity)
            for decl in ("integer :: size", "integer, intrinsic :: size", "real, external :: size", "real :: size(3)", "intrinsic size", "external size", "integer, dimension(2) :: size",
                         "real, intrinsic :: sum, abs", "use mm, only: size", "integer, parameter :: size = 3"):
                for ref in ("n = size(a)", "n = sum(abs(a)) + size(a, 1)", "call sub(size(a), b=sum(a))", "if (size(a) > 0) n = abs(n)"):
                    yield "subroutine s(a, n)\n%s\n%s\nend subroutine s\n" % (decl, ref)
                    yield "module m\n%s\ncontains\nsubroutine s(a, n)\n%s\nend subroutine s\nend module m\n" % (decl, ref)

        def run(std):
            parser = ParserFactory().create(std=std)
            out = {}
            for src in programs():
                try:
                    out[src] = str(parser(FortranStringReader(src)))
                except FparserException:
                    out[src] = None
                except SystemExit:
                    out[src] = None
            return out
        a03, a08 = run("f2003"), run("f2008")
        accepted = 0
        for src, v3 in a03.items():
            cases += 1
            if v3 is None:
                continue
            accepted += 1
            v8 = a08[src]
            if v8 is None or v8 != v3:
                # the site of a difference: the statement shapes (keywords kept, names and numbers abstracted) that differ
                def shape_of(line):
                    t = re.sub(r"[a-z_0-9]+", "_", line.strip())
                    return re.sub(r"_(, _)+", "_", t)
                site = None
                if v8 is not None and len(v8.splitlines()) == len(v3.splitlines()):
                    site = sorted({(shape_of(x), shape_of(y)) for x, y in zip(v3.splitlines(), v8.splitlines()) if x != y})
                    site = [list(pair) for pair in site]
                failures.append(dict(obligation="two.Fortran2008#f2008_accepts_what_f2003_accepts",
                                     witness=dict(source=src, site=site), observed=dict(f2003=v3, f2008=v8)))
        # rejection direction: Fortran 2008-only constructs are rejected by the f2003 parser and accepted by the f2008 parser
        only08src = {
            "submodule": "submodule (a) b\nend submodule b\n",
            "codimension": "program p\ninteger, codimension[*] :: a\nend program p\n",
            "block": "program p\nblock\ninteger :: i\nend block\nend program p\n",
            "critical": "program p\ncritical\nx = 1\nend critical\nend program p\n",
            "do_concurrent": "program p\ndo concurrent (i = 1:3)\nx = i\nend do\nend program p\n",
            "error_stop": "program p\nerror stop\nend program p\n",
            "contiguous_decl": "program p\nreal, pointer, contiguous :: v(:)\nend program p\n",
            "contiguous_component": "module m\ntype t\nreal, pointer, contiguous :: v(:)\nend type t\nend module m\n",
            "allocate_mold": "program p\nallocate(a, mold=b)\nend program p\n",
            "open_newunit": "program p\nopen(newunit=u, file='x')\nend program p\n",
            "component_codimension": "module m\ntype t\ninteger, allocatable, codimension[:] :: c\nend type t\nend module m\n",
            "procedure_stmt_colons": "module m\ninterface g\nmodule procedure :: f\nend interface g\nend module m\n",
        }
        for std in ("f2003", "f2008"):
            parser = ParserFactory().create(std=std)
            for name, src in only08src.items():
                cases += 1
                try:
                    parser(FortranStringReader(src))
                    ok = True
                except (FparserException, SystemExit):
                    ok = False
                if std == "f2003" and ok:
                    failures.append(dict(obligation="two.Fortran2003#rejects_f2008_only_construct", witness=dict(construct=name, source=src), observed="accepted by the f2003 parser"))
                if std == "f2008" and not ok:
                    failures.append(dict(obligation="two.Fortran2008#accepts_f2008_construct", witness=dict(construct=name, source=src), observed="rejected by the f2008 parser"))
        samples.append(dict(programs=len(a03), accepted_by_f2003=accepted,
                            rules_with_different_alternative_lists=sorted(divergent)))
        # intrinsic tables
        from fparser.two.Fortran2003 import Intrinsic_Name as I3
        from fparser.two.Fortran2008.intrinsics_f08 import Intrinsic_Name as I8  # noqa
        cases += 1
        names3 = set(getattr(I3, "function_names", []))
        names8 = set(getattr(I8, "function_names", []))
        if names3 and not names3 <= names8:
            failures.append(dict(obligation="two.Fortran2008:Intrinsic_Name#extends_2003_table", witness=dict(),
                                 observed=dict(missing=sorted(names3 - names8)[:10])))
    print(json.dumps(dict(name="enum_registries", cases=cases, distinct=cases, exhaustive=True, failures=failures, samples=samples,
                          rule="C09: every history over {create f2003, create f2008, parse valid, parse invalid} up to the stated length, then create(s); "
                               "C17: every rule name of the f2003 registry, every overriding class, every 2008-only class",
                          assumptions=["registry snapshot compares (module, class name) lists of Base.subclasses; the fresh reference is taken in a new process"],
                          seconds=round(time.time() - t0, 2))))
    return 0


def replay(path):
    data = json.load(open(path))
    print("witness:", data.get("witness"), "observed at check time:", data.get("observed"))
    return 1


if __name__ == "__main__":
    if "--replay" in sys.argv:
        sys.exit(replay(sys.argv[sys.argv.index("--replay") + 1]))
    sys.exit(main(sys.argv[1:]))
