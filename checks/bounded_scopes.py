"""[B] C16: symbol tables mirror the scoping structure, intrinsic references are resolved against the visible declarations.

Bounded stand-in (never counted as proved).  Programs are built from a fixed scope tree

    module m { contains subroutine s1 { block }, function f2 }   program p { block { block } }   subroutine e

in which every scope gets one of the declaration configurations below; the ground truth (which table holds which
names and modules, which intrinsic names are shadowed where) is known by construction.  Enumerated: every scope with
every configuration (others at the baseline), and every ancestor/descendant and sibling pair of scopes with every pair
of configurations.  Compared after a parse with the f2008 parser (BLOCK constructs):

  * the tree of symbol tables == the scope tree (names; BLOCK tables by position)
  * per table: the declared intrinsic-typed variables and the used modules, exactly
  * every reference name(args) in every scope: Intrinsic_Function_Reference iff the name is not visible there

  bounded_scopes.py [--tier quick|thorough] [--replay FILE]
"""
import itertools
import json
import os
import sys
import time

ROOT = os.path.dirname(os.path.dirname(os.path.abspath(__file__)))
sys.path.insert(0, ROOT)
REPO = os.environ.get("VERIF_REPO", "/repo")
if REPO != "/repo":
    sys.path.insert(0, os.path.join(REPO, "src"))
sys.dont_write_bytecode = True

# configuration -> (declaration lines, declared names, used modules, names imported by an only-list)
CONFIGS = [
    ([], [], [], []),
    (["real :: sin(10)"], ["sin"], [], []),
    (["integer :: max(3), v"], ["max", "v"], [], []),
    (["use ma"], [], ["ma"], []),
    (["use mb, only: sum"], [], ["mb"], ["sum"]),
    (["use ma", "use mb, only: sum => total", "real :: sin(2)"], ["sin"], ["ma", "mb"], ["sum"]),
    (["double precision :: dsin(4)"], ["dsin"], [], []),       # a specific intrinsic name (its generic name is SIN)
    (["real, external :: sin", "integer, dimension(3), save :: max"], ["max", "sin"], [], []),      # declarations with attributes
]
INTRINSICS = ["sin", "max", "sum", "dsin"]
REFS = "  w = sin(1.0) + max(1, 2) + sum(q) + dsin(1.0d0)"
# scope id -> (parent id or None, kind, name)
SCOPES = {
    "m": (None, "module", "m"), "s1": ("m", "subroutine", "s1"), "s1b": ("s1", "block", None), "f2": ("m", "function", "f2"),
    "p": (None, "program", "p"), "pb": ("p", "block", None), "pbb": ("pb", "block", None), "e": (None, "subroutine", "e"),
}
CHILDREN = {k: [c for c, v in SCOPES.items() if v[0] == k] for k in list(SCOPES) + [None]}


def render(cfg):
    def unit(sid, ind):
        parent, kind, name = SCOPES[sid]
        decl, _, _, _ = CONFIGS[cfg[sid]]
        pad = "  " * ind
        uses = [d for d in decl if d.startswith("use")]
        others = [d for d in decl if not d.startswith("use")]
        out = []
        if kind == "block":
            out.append(pad + "block")
        elif kind == "function":
            out.append(pad + "function %s()" % name)
        else:
            out.append(pad + "%s %s" % (kind, name))
        out += [pad + "  " + u for u in uses]
        out += [pad + "  " + o for o in others]
        blocks = [c for c in CHILDREN[sid] if SCOPES[c][1] == "block"]
        subs = [c for c in CHILDREN[sid] if SCOPES[c][1] != "block"]
        if kind != "module":
            out.append(pad + REFS)
            for b in blocks:
                out += unit(b, ind + 1)
            out.append(pad + REFS.replace("w =", "w2 ="))
        if subs:
            out.append(pad + "contains")
            for c in subs:
                out += unit(c, ind + 1)
        out.append(pad + ("end block" if kind == "block" else "end %s %s" % (kind, name)))
        return out
    lines = []
    for top in CHILDREN[None]:
        lines += unit(top, 0)
    return "\n".join(lines) + "\n"


def visible(cfg, sid, name):
    while sid is not None:
        _, declared, _, imported = CONFIGS[cfg[sid]]
        if name in declared or name in imported:
            return True
        sid = SCOPES[sid][0]
    return False


def expected_tables(cfg, sid):
    _, declared, mods, _ = CONFIGS[cfg[sid]]
    kind, name = SCOPES[sid][1], SCOPES[sid][2]
    return dict(name=name if kind != "block" else "block", symbols=sorted(declared), modules=sorted(mods),
                children=[expected_tables(cfg, c) for c in CHILDREN[sid]])


def actual_tables(table):
    name = table.name
    if name.startswith("block:"):
        name = "block"
    return dict(name=name, symbols=sorted(table._data_symbols), modules=sorted(table._modules),
                children=[actual_tables(c) for c in table.children])


def references(tree):
    """[(scope path, intrinsic name, is_intrinsic_reference)] in source order"""
    from fparser.two import Fortran2003 as F
    from fparser.two.utils import walk
    out = []
    for node in walk(tree, (F.Intrinsic_Function_Reference, F.Part_Ref, F.Structure_Constructor, F.Function_Reference)):
        text = str(node).lower()
        nm = text.split("(")[0].strip()
        if nm in INTRINSICS:
            out.append((nm, isinstance(node, F.Intrinsic_Function_Reference)))
    return out


def expected_references(cfg):
    out = []

    def unit(sid):
        kind = SCOPES[sid][1]
        blocks = [c for c in CHILDREN[sid] if SCOPES[c][1] == "block"]
        subs = [c for c in CHILDREN[sid] if SCOPES[c][1] != "block"]
        if kind != "module":
            out.extend((n, not visible(cfg, sid, n)) for n in INTRINSICS)
            for b in blocks:
                unit(b)
            out.extend((n, not visible(cfg, sid, n)) for n in INTRINSICS)
        for c in subs:
            unit(c)
    for top in CHILDREN[None]:
        unit(top)
    return out


def configurations(tier):
    ids = list(SCOPES)
    base = {k: 0 for k in ids}
    seen = set()

    def emit(cfg):
        key = tuple(cfg[k] for k in ids)
        if key not in seen:
            seen.add(key)
            yield dict(cfg)
    yield from emit(base)
    for sid in ids:
        for c in range(1, len(CONFIGS)):
            cfg = dict(base)
            cfg[sid] = c
            yield from emit(cfg)
    pairs = [(a, b) for a, b in itertools.combinations(ids, 2)]
    for a, b in pairs:
        related = SCOPES[b][0] == a or SCOPES[a][0] == b or SCOPES[a][0] == SCOPES[b][0] or a in _ancestors(b) or b in _ancestors(a)
        if not related and tier != "thorough":
            continue
        for ca in range(1, len(CONFIGS)):
            for cb in range(1, len(CONFIGS)):
                if tier != "thorough" and (ca + 2 * cb) % 3:
                    continue
                cfg = dict(base)
                cfg[a], cfg[b] = ca, cb
                yield from emit(cfg)


def _ancestors(sid):
    out = []
    sid = SCOPES[sid][0]
    while sid is not None:
        out.append(sid)
        sid = SCOPES[sid][0]
    return out


def main(argv):
    tier = argv[argv.index("--tier") + 1] if "--tier" in argv else "quick"
    t0 = time.time()
    from fparser.two.parser import ParserFactory
    from fparser.two.symbol_table import SYMBOL_TABLES
    from fparser.common.readfortran import FortranStringReader
    failures, cases, samples = [], 0, []

    def fail(oid, witness, observed):
        if sum(1 for f in failures if f["obligation"] == oid) < 40:
            failures.append(dict(obligation=oid, witness=witness, observed=observed))
    for cfg in configurations(tier):
        src = render(cfg)
        cases += 1
        wit = dict(configuration={k: v for k, v in cfg.items() if v}, source=src)
        try:
            tree = ParserFactory().create(std="f2008")(FortranStringReader(src))
        except BaseException as e:  # noqa
            fail("scopes#generated_program_parses", wit, "%s: %s" % (type(e).__name__, str(e)[:160]))
            continue
        want = [expected_tables(cfg, top) for top in CHILDREN[None]]
        got = [actual_tables(SYMBOL_TABLES.lookup(SCOPES[top][2])) for top in CHILDREN[None] if SCOPES[top][2] in SYMBOL_TABLES._symbol_tables]
        extra = sorted(set(SYMBOL_TABLES._symbol_tables) - {SCOPES[t][2] for t in CHILDREN[None]})
        if got != want or extra:
            fail("scopes#table_tree_is_scope_tree", wit, dict(expected=want, found=got, unexpected_top_level=extra))
        if SYMBOL_TABLES.current_scope is not None:
            fail("scopes#no_scope_left_open", wit, dict(open=SYMBOL_TABLES.current_scope.name))
        refs, want_refs = references(tree), expected_references(cfg)
        if refs != want_refs:
            k = next((i for i, (a, b) in enumerate(zip(refs, want_refs)) if a != b), min(len(refs), len(want_refs)))
            fail("scopes#intrinsic_iff_not_shadowed", wit, dict(position=k, found=refs[k:k + 3], expected=want_refs[k:k + 3], n_found=len(refs), n_expected=len(want_refs)))
        elif len(samples) < 2 and cases % 37 == 0:
            samples.append(dict(configuration=wit["configuration"], references=len(refs)))
    # two fixed programs outside the generated family
    from fparser.two import Fortran2003 as F
    from fparser.two.utils import walk
    src = "subroutine w(a)\n real a(3)\n do 10 i=1,3\n block\n integer :: sum\n sum = 1\n end block\n10 a(i) = 1\nend subroutine w\n"
    cases += 1
    try:
        ParserFactory().create(std="f2008")(FortranStringReader(src))
        got = actual_tables(SYMBOL_TABLES.lookup("w"))
        want = dict(name="w", symbols=["a"], modules=[], children=[dict(name="block", symbols=["sum"], modules=[], children=[])])
        if got != want:
            fail("scopes#block_inside_nonblock_do_has_one_table", dict(source=src), dict(expected=want, found=got))
    except BaseException as e:  # noqa
        fail("scopes#block_inside_nonblock_do_has_one_table", dict(source=src), "%s: %s" % (type(e).__name__, str(e)[:120]))
    src = ("module m\n type thing\n integer :: k\n end type thing\ncontains\n subroutine s\n type(thing) :: size(3)\n x = size(1)\n end subroutine s\n"
           " recursive function sum(n) result(r)\n r = sum(n-1)\n end function sum\nend module m\n")
    cases += 1
    try:
        tree = ParserFactory().create(std="f2003")(FortranStringReader(src))
        wrong = [str(n) for n in walk(tree, F.Intrinsic_Function_Reference)]
        if wrong:
            fail("scopes#non_intrinsic_typed_declarations_shadow_too", dict(source=src), dict(parsed_as_intrinsic=wrong))
    except BaseException as e:  # noqa
        fail("scopes#non_intrinsic_typed_declarations_shadow_too", dict(source=src), "%s: %s" % (type(e).__name__, str(e)[:120]))
    # sibling scopes that carry the same name are still two scopes: one table each, declarations of one not visible in the other
    def tree_of(tb):
        nm = "block" if tb.name.startswith("block:") else tb.name
        return (nm, sorted(tb._data_symbols), [tree_of(c) for c in tb.children])
    siblings = [
        ("interface_body_and_definition",
         "module shapes\n interface\n  module function total(v, size)\n   integer :: size\n   real :: v(size), total\n  end function total\n end interface\ncontains\n"
         " module function total(v, n)\n  integer :: n\n  real :: v(n), total\n  total = sum(v) / size(v)\n end function total\nend module shapes\n",
         "shapes", ("shapes", [], [("total", ["size", "total", "v"], []), ("total", ["n", "total", "v"], [])]), {"sum": True, "size": True}),
        ("two_blocks_with_one_construct_name",
         "subroutine run(a, b)\n real :: a(10), b\n work: block\n  real :: max\n  max = a(1)\n  b = max\n end block work\n work: block\n  b = max(b, a(2))\n end block work\nend subroutine run\n",
         "run", ("run", ["a", "b"], [("work", ["max"], []), ("work", [], [])]), {"max": True}),
        ("two_interface_bodies_with_one_name",
         "module m2\n interface g1\n  subroutine put(x)\n   real :: x, abs\n  end subroutine put\n end interface\n interface g2\n  subroutine put(k)\n   integer :: k\n  end subroutine put\n end interface\n"
         "contains\n subroutine q(y)\n  real :: y\n  y = abs(y)\n end subroutine q\nend module m2\n",
         "m2", ("m2", [], [("put", ["abs", "x"], []), ("put", ["k"], []), ("q", ["y"], [])]), {"abs": True}),
    ]
    siblings += [
        # the same module used twice in one scope, the second only-list repeating a name and adding an intrinsic-named one
        ("overlapping_only_lists",
         "module mo\n use ma, only: wp\n use ma, only: wp, sin\n use mb, only: cos\n use mb, only: cos => fast_cos, tan\ncontains\n subroutine inner(x)\n  real :: x\n  x = sin(x) + tan(x) + cos(x)\n  block\n   x = sin(x)\n  end block\n end subroutine inner\nend module mo\n",
         "mo", ("mo", [], [("inner", ["x"], [("block", [], [])])]), {"sin": False, "tan": False, "cos": False}),
    ]
    def use_case(name, uses, refs):
        src = "module mu\n" + "".join(" %s\n" % u for u in uses) + "contains\n subroutine inner(x)\n  real :: x\n  x = sin(x) + cos(x) + tan(x)\n end subroutine inner\nend module mu\n"
        return (name, src, "mu", ("mu", [], [("inner", ["x"], [])]), refs)
    # every way two USE statements of one module combine (wildcard, only-list, renames), in both orders
    siblings += [
        use_case("wildcard_then_only", ["use ma", "use ma, only: sin"], {"sin": False, "cos": True, "tan": True}),
        use_case("only_then_wildcard", ["use ma, only: sin", "use ma"], {"sin": False, "cos": True, "tan": True}),
        use_case("rename_then_only", ["use ma, cos => fast_cos", "use ma, only: sin"], {"sin": False, "cos": False, "tan": True}),
        use_case("only_then_rename", ["use ma, only: sin", "use ma, tan => my_tan"], {"sin": False, "cos": True, "tan": False}),
        use_case("only_rename_twice", ["use ma, only: sin => s1", "use ma, only: cos => c1, sin => s2"], {"sin": False, "cos": False, "tan": True}),
        use_case("empty_only_then_only", ["use ma, only:", "use ma, only: tan"], {"sin": True, "cos": True, "tan": False}),
    ]
    for sname, src, top, want, refs in siblings:
        cases += 1
        try:
            tree = ParserFactory().create(std="f2008")(FortranStringReader(src))
            got = tree_of(SYMBOL_TABLES.lookup(top))
            if got != want:
                fail("scopes#same_named_siblings_have_a_table_each", dict(case=sname, source=src), dict(expected=want, found=got))
            found = {}
            for node in walk(tree, (F.Intrinsic_Function_Reference, F.Part_Ref)):
                nm = str(node).lower().split("(")[0].strip()
                if nm in refs:
                    found[nm] = isinstance(node, F.Intrinsic_Function_Reference)
            if found != refs:
                fail("scopes#sibling_declarations_do_not_shadow", dict(case=sname, source=src), dict(expected=refs, found=found))
        except BaseException as e:  # noqa
            fail("scopes#same_named_siblings_have_a_table_each", dict(case=sname, source=src), "%s: %s" % (type(e).__name__, str(e)[:120]))
    print(json.dumps(dict(name="bounded_scopes", cases=cases, distinct=cases, exhaustive=False, bounded=True, failures=failures, samples=samples,
                          rule="fixed scope tree of 8 scopes x %d declaration configurations: every scope alone, every related pair of scopes "
                               "(all pairs in the thorough tier)" % len(CONFIGS),
                          assumptions=["bounded: one scope tree shape, %d declaration configurations (checks/bounded_scopes.py)" % len(CONFIGS)],
                          seconds=round(time.time() - t0, 2))))
    return 0


def replay(path):
    data = json.load(open(path))
    w = data.get("witness") or {}
    print("obligation:", data.get("obligation"))
    print("configuration:", w.get("configuration"))
    print("source:\n" + w.get("source", ""))
    print("observed at check time:", json.dumps(data.get("observed"))[:1500])
    return 1


if __name__ == "__main__":
    if "--replay" in sys.argv:
        sys.exit(replay(sys.argv[sys.argv.index("--replay") + 1]))
    sys.exit(main(sys.argv[1:]))
