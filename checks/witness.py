"""Witness scenarios on the real code (run under /venv/bin/python).

  witness.py <name>            -> prints what was observed; exit 1 if the property-level expectation
                                  is violated by the real code, 0 if it holds
  witness.py --replay <file>   -> same, name taken from the replay file ("witness": {"scenario": name})
  witness.py --list

Each scenario is the concrete input / history recorded with a finding of
DESIGN.md section 7; they are used to confirm known findings on every run
(a listed finding whose witness no longer fails suppresses nothing) and to
replay violations found by obligations over stateful code.
"""
import json
import os
import sys

REPO = os.environ.get("VERIF_REPO", "/repo")
if REPO != "/repo":
    sys.path.insert(0, os.path.join(REPO, "src"))
sys.dont_write_bytecode = True


def _parser(std="f2003"):
    from fparser.two.parser import ParserFactory
    return ParserFactory().create(std=std)


def _reader(text, **kw):
    from fparser.common.readfortran import FortranStringReader
    return FortranStringReader(text, **kw)


def _tables_state():
    from fparser.two.symbol_table import SYMBOL_TABLES
    return (SYMBOL_TABLES.current_scope.name if SYMBOL_TABLES.current_scope else None,
            sorted(SYMBOL_TABLES._symbol_tables.keys()))


def _failing_parse_leaves_nothing(text, std="f2003"):
    p = _parser(std)
    before = _tables_state()
    try:
        p(_reader(text))
        outcome = "accepted"
    except BaseException as e:  # noqa
        outcome = type(e).__name__
    after = _tables_state()
    ok = after == before
    return ok, dict(outcome=outcome, before=before, after=after)


def c09_internal_syntax_error_leaves_scope():
    """D1: a non-FortranSyntaxError exception inside a block"""
    return _failing_parse_leaves_nothing("program p\n x = sin(a,b)\nend program p\n")


def c09_main_program0_leaves_scope():
    """D2: FortranSyntaxError through Main_Program0.match"""
    return _failing_parse_leaves_nothing("a: if (x) then\n y=1\nend if b\nend\n")


def c09_failing_parse_removes_existing_table():
    """D3: a failing parse of a unit whose name equals an existing top-level table removes it"""
    from fparser.two.symbol_table import SYMBOL_TABLES
    p = _parser()
    p(_reader("program p\nend program p\n"))
    before = _tables_state()
    try:
        p(_reader("program p\nx = (\nend program p\n"))
        outcome = "accepted"
    except BaseException as e:  # noqa
        outcome = type(e).__name__
    after = _tables_state()
    return after == before, dict(outcome=outcome, before=before, after=after)


def _only_syntax_error(text, std="f2003", **kw):
    from fparser.two.utils import FortranSyntaxError
    p = _parser(std)
    try:
        tree = p(_reader(text, **kw))
        str(tree)
        return True, dict(outcome="tree")
    except FortranSyntaxError as e:
        return True, dict(outcome="FortranSyntaxError", message=str(e)[:200])
    except BaseException as e:  # noqa
        return False, dict(outcome=type(e).__name__, message=str(e)[:200])


def c06_end_name_mismatch_exits():
    """D4: reader.error() ends the process"""
    return _only_syntax_error("subroutine a\nend subroutine b\n")


def c06_dangling_construct_name_exits():
    """D4: reader.error() from get_source_item"""
    return _only_syntax_error("program p\na:\nend program p\n")


def _rejected(text, std="f2003"):
    from fparser.two.utils import FortranSyntaxError
    p = _parser(std)
    try:
        p(_reader(text))
        return False, dict(outcome="accepted")
    except FortranSyntaxError as e:
        return True, dict(outcome="FortranSyntaxError")
    except BaseException as e:  # noqa
        return False, dict(outcome=type(e).__name__)


def c08_interface_end_name_mismatch():
    """D5: interface x / end interface y is accepted"""
    return _rejected("module m\ninterface x\nend interface y\nend module m\n")


def c08_subroutine_end_name_mismatch():
    """D5: end-name mismatch of a subprogram is not rejected with an error"""
    return _rejected("subroutine a\nend subroutine b\n")


def c08_labelled_do_end_name_mismatch():
    """D16: a labelled block DO with a construct name accepts an END DO carrying a different name"""
    return _rejected("program p\na: do 10 i=1,3\nx=1\n10 end do b\nend program p\n")


def c08_module_end_name_mismatch():
    """D5: module m / end module n is not rejected with an error (the process exits)"""
    return _rejected("module m\nend module n\n")


def c08_function_end_name_mismatch():
    """D5: function f / end function g is not rejected with an error (the process exits)"""
    return _rejected("function f()\nend function g\n")


def c08_submodule_end_name_mismatch():
    """D5: submodule (a) b / end submodule c is not rejected with an error (the process exits)"""
    return _rejected("submodule (a) b\nend submodule c\n", "f2008")


def c17_procedure_stmt_text_differs():
    """D15: 'procedure f' in an interface block prints as MODULE PROCEDURE under f2003 and PROCEDURE under f2008"""
    src = "module m\ninterface g\nprocedure f\nend interface g\nend module m\n"
    from fparser.common.readfortran import FortranStringReader
    a = str(_parser("f2003")(FortranStringReader(src)))
    b = str(_parser("f2008")(FortranStringReader(src)))
    return a.lower() == b.lower(), dict(f2003=a, f2008=b)


def c03_defined_binary_op_then_dotted_operator():
    """D17: 'a .myop. b .and. c' (valid: a .myop. (b .and. c)) is rejected"""
    ok, info = _only_syntax_error("program p\nl = a .myop. b .and. c\nend program p\n")
    return info.get("outcome") == "tree", info


def c02_units_dropped_around_anonymous_main():
    """D6: program units before an anonymous main program are dropped from the tree"""
    p = _parser()
    tree = p(_reader("subroutine s\nend subroutine s\nx = 1\nend\n"))
    out = str(tree)
    return "SUBROUTINE s" in out, dict(printed=out)


def c04_ampersand_inside_continued_literal():
    """D7: text between two '&' inside a continued character literal is lost"""
    r = _reader("x = 'a&\nb&c&\nd'\n")
    item = r.get_item()
    return item.line == "x = 'ab&cd'", dict(line=item.line)


def c05_fixed_comment_with_ampersand():
    """D8: a fixed-form file with a comment line ending in '&' is detected as free form"""
    from fparser.common.sourceinfo import get_source_info_str
    fmt = get_source_info_str("C see &\n      x = 1\n      end\n")
    return not fmt.is_free, dict(is_free=fmt.is_free)


def c05_labelled_first_statement():
    """D18: a free-form source whose first statement carries a label in column 1 is detected as fixed form"""
    from fparser.common.sourceinfo import get_source_info_str
    fmt = get_source_info_str("10 x = 1\n      y = 2\n")
    return fmt.is_free, dict(is_free=fmt.is_free)


def c05_first_statement_starting_with_c():
    """D18: a free-form source whose first statement starts with c, C or * in column 1 is detected as fixed form"""
    from fparser.common.sourceinfo import get_source_info_str
    fmt = get_source_info_str("call s()\n      y = 2\n      end\n")
    return fmt.is_free, dict(is_free=fmt.is_free)


def c10_walk_misses_nodes_in_nested_list():
    """D20: walk() did not descend into a list held inside a node's items (COMMON statement)"""
    from fparser.two.utils import walk
    from fparser.two.Fortran2003 import Name
    tree = _parser()(_reader("program e\n  real a(4)\n  common /blk/ a\nend program e\n"))
    names = [str(n) for n in walk(tree, Name)]
    return "blk" in names, dict(names=names)


def c08_extra_closing_parenthesis_in_attr_spec():
    """D21: 'integer, intent(in)) :: a' is accepted"""
    return _rejected("subroutine s(a)\n integer, intent(in)) :: a\nend subroutine s\n")


def c20_nested_nonblock_labelled_do_is_exponential():
    """D22: nested non-block labelled DO loops with distinct labels: rule-constructor calls grow ~2^depth"""
    from fparser.two import utils as U
    def count(n):
        src = "program p\n" + "".join("do %d i%d = 1, 2\n" % (10 + k, k) for k in range(n)) + "".join("%d x = %d\n" % (10 + k, k) for k in reversed(range(n))) + "end program p\n"
        parser = _parser()
        calls = [0]
        orig = U.Base.__new__
        def counting(cls, *a, **k):
            calls[0] += 1
            return orig(cls, *a, **k)
        U.Base.__new__ = staticmethod(counting)
        try:
            parser(_reader(src))
        finally:
            U.Base.__new__ = orig
        return calls[0]
    c4, c8 = count(4), count(8)
    return c8 <= 8 * c4 + 200, dict(calls_depth4=c4, calls_depth8=c8)


def c20_nested_calls_are_exponential():
    """D23: nested references f(f(f(a))): rule-constructor calls double per nesting level"""
    from fparser.two import utils as U
    def count(n):
        e = "a"
        for _ in range(n):
            e = "f(%s)" % e
        parser = _parser()
        calls = [0]
        orig = U.Base.__new__
        def counting(cls, *a, **k):
            calls[0] += 1
            return orig(cls, *a, **k)
        U.Base.__new__ = staticmethod(counting)
        try:
            parser(_reader("program p\nx = %s\nend program p\n" % e))
        finally:
            U.Base.__new__ = orig
        return calls[0]
    c4, c8 = count(4), count(8)
    return c8 <= 8 * c4 + 200, dict(calls_depth4=c4, calls_depth8=c8)


def c13_include_drops_omp_conditional_option():
    """D24: '!$ i = 3' inside an included file is compiled exactly when it would be in the main file"""
    import tempfile, os
    from fparser.common.readfortran import FortranStringReader
    with tempfile.TemporaryDirectory() as d:
        open(os.path.join(d, "o.inc"), "w").write("  !$ i = 3\n")
        main = "program p\n  integer :: i\n  include 'o.inc'\nend program p\n"
        full = "program p\n  integer :: i\n  !$ i = 3\nend program p\n"
        a = str(_parser()(FortranStringReader(main, include_dirs=[d], include_omp_conditional_lines=True)))
        b = str(_parser()(FortranStringReader(full, include_omp_conditional_lines=True)))
    return a == b, dict(with_include=a, inline=b)


def _only_syntax_error(src, std="f2003"):
    from fparser.two.utils import FortranSyntaxError
    try:
        str(_parser(std)(_reader(src)))
        return True, dict(outcome="parsed")
    except FortranSyntaxError:
        return True, dict(outcome="FortranSyntaxError")
    except BaseException as e:  # noqa
        return False, dict(outcome="%s: %s" % (type(e).__name__, str(e)[:120]))


def c06_kind_selector_too_short():
    """D27: 'integer ) i' lets InternalError escape (Kind_Selector.match, behaviour pinned by tests)"""
    return _only_syntax_error("program p\n  integer ) i\nend program p\n")


def c06_use_only_dtio_generic_spec():
    """D25 (fixed): a dtio-generic-spec in an only-list is valid"""
    return _only_syntax_error("module m\n  use a, only: read(formatted)\nend module m\n")


def c06_hollerith_length_with_blank():
    """D26 (fixed)"""
    return _only_syntax_error("program p\n100 format(1 2Habcdefghijkl)\nend program p\n")


def c06_component_decl_assertion():
    """D28 (fixed)"""
    return _only_syntax_error("module m\n type t\n  integer if k\n end type t\nend module m\n")


def c06_deallocate_assertion():
    """D29 (fixed)"""
    return _only_syntax_error("program p\n deallocate(a = )\nend program p\n")


def c06_array_constructor_empty_item():
    """D30 (fixed)"""
    ok1, o1 = _only_syntax_error("program p\n  a = [1 2,, 3]\nend program p\n")
    ok2, o2 = _only_syntax_error("program p\n  a = [(i = 1, 2)]\nend program p\n")
    return ok1 and ok2, dict(first=o1, second=o2)


def c08_stray_end_do_inside_labelled_do():
    """D36: an unlabelled END DO inside the range of a labelled DO is accepted"""
    return _rejected("subroutine w(a, n)\n integer n, i\n real a(n)\n do 10 i = 1, n\n  a(i) = 0\n end do\n10 continue\nend subroutine w\n")


def c08_labelled_do_without_terminator():
    """D31 (fixed): 'do 10 ...' without a statement labelled 10"""
    return _rejected("program p\n do 10 i=1,3\n x = 1\n y = 2\nend program p\n")


def c14_directive_with_semicolon():
    """D32 (fixed): '#define X a;b' is one directive"""
    ok, obs = _only_syntax_error("program p\n#define X a;b\n x = 1\nend program p\n")
    t = None
    try:
        t = str(_parser()(_reader("program p\n#define X a;b\n x = 1\nend program p\n")))
    except BaseException as e:  # noqa
        return False, dict(outcome="%s" % type(e).__name__)
    return "#define X a;b" in t, dict(printed=t)


def c14_directive_before_anonymous_main_program():
    """D33 (fixed): '#ifdef X' in front of a main program without PROGRAM statement stays in the tree"""
    t = str(_parser()(_reader("#ifdef X\n x = 1\n#endif\nend\n")))
    return t.splitlines()[0].strip() == "#ifdef X", dict(printed=t)


def c09_tables_of_earlier_units_remain_after_failure():
    """D34: the tables of the units matched before a failing unit remain registered"""
    return _failing_parse_leaves_nothing("module m2\nend module m2\nsubroutine s2\n x = = 1\nend subroutine s2\n")


def c18_tree_from_file_reader_cannot_be_copied():
    """D35: deepcopy / pickle of a tree whose reader holds an open file"""
    import copy, os, pickle, tempfile
    from fparser.common.readfortran import FortranFileReader
    with tempfile.TemporaryDirectory() as d:
        fn = os.path.join(d, "a.f90")
        open(fn, "w").write("program p\n x = 1\nend program p\n")
        t = _parser()(FortranFileReader(fn))
        out = {}
        for how, fn2 in (("deepcopy", copy.deepcopy), ("pickle", lambda x: pickle.loads(pickle.dumps(x)))):
            try:
                out[how] = str(fn2(t)) == str(t)
            except BaseException as e:  # noqa
                out[how] = "%s: %s" % (type(e).__name__, str(e)[:80])
    return all(v is True for v in out.values()), out


def _printed(src, std="f2003"):
    return str(_parser(std)(_reader(src)))


def c02_char_selector_placeholder_leak():
    """D37 (fixed)"""
    t = _printed("module m\n  character(kind=ck, len=n(1, 2)) :: ca\n  character(n(1, 2), ck) :: ce\nend module m\n")
    return "F2PY" not in t and t.count("n(1, 2)") == 2, dict(printed=t)


def c02_char_selector_kind_len_reordered():
    """D38: KIND=..., LEN=... printed as LEN=..., KIND=..."""
    t = _printed("module m\n  character(kind=ck, len=n) :: ca\nend module m\n")
    return t.upper().index("KIND") < t.upper().index("LEN"), dict(printed=t)


def c02_semicolon_join_lowercases_names():
    """D39: names of ';'-joined statements are lower-cased"""
    t = _printed("program p\n  a = 1; B = 2; Cc = a + B\nend program p\n")
    return "B = 2" in t and "Cc = a + B" in t, dict(printed=t)


def c08_generic_spec_with_surplus_parenthesis():
    """D40/D41: unbalanced parentheses inside OPERATOR(...) / ASSIGNMENT(...) generic specs are accepted"""
    a = _rejected("module m\ninterface operator(+))\nmodule procedure f\nend interface\nend module m\n")
    b = _rejected("module m\nuse m2, only: operator(.eq., assignment(=)\nend module m\n")
    return a[0] and b[0], dict(interface=a[1], use=b[1])


def c08_procedure_declaration_drops_text():
    """D42 (fixed)"""
    return _rejected("module m\nprocedure(real)), pointer :: pp => null()\nend module m\n")


def c15_sentinel_statement_first_in_anonymous_main_program():
    """D66: '!$ x = 1' as the first line of a main program without PROGRAM statement (sentinel lines included)"""
    import signal

    class _Hang(Exception):
        pass

    def _alarm(*_a):
        raise _Hang()
    old = signal.signal(signal.SIGALRM, _alarm)
    signal.alarm(20)
    try:
        t = str(_parser()(_reader("!$ x = 1\ny = 2\nend\n", include_omp_conditional_lines=True)))
        return t.split() == "x = 1 y = 2 END".split(), dict(printed=t)
    except _Hang:
        return False, dict(outcome="no result after 20 s (Program.match loops)")
    except BaseException as e:  # noqa
        return False, dict(outcome="%s: %s" % (type(e).__name__, str(e)[:100]))
    finally:
        signal.alarm(0)
        signal.signal(signal.SIGALRM, old)


def c02_group_equal_to_the_content_of_an_earlier_group():
    """D67 (fixed): '((a+b)) * (a+b)' printed with a second pair of parentheses around the right operand; a literal equal to the content of an earlier one rejected"""
    t = _printed("program p\nx = ((a+b)) * (a+b)\nz = f((a+b)) + (a+b)\nend program p\n")
    ok1 = "x = ((a + b)) * (a + b)" in t and "z = f((a + b)) + (a + b)" in t
    ok2, info = _only_syntax_error_free("program p\ns = \"'a b'\" // 'a b'\nend program p\n")
    return ok1 and ok2, dict(printed=t, literal_case=info)


def c02_function_suffix_reordered():
    """D68: 'function f(x) bind(c, name='ff') result(r)' is printed with RESULT first (Suffix.tostr, order pinned by tests)"""
    t = _printed("function f2(x) bind(c, name='ff') result(r)\nreal x, r\nend function f2\n")
    line = t.splitlines()[0]
    return line.upper().index("BIND") < line.upper().index("RESULT"), dict(printed=line)


def c02_generic_binding_without_blank_after_arrow():
    """D69 (fixed): 'generic :: g =>ab' lost the first character of the binding name"""
    t = _printed("module m\ntype :: t\ncontains\nprocedure :: ab\nprocedure :: cd\ngeneric :: g =>ab, cd\ngeneric, public :: operator(+)=>ab\nend type t\nend module m\n")
    return "GENERIC :: g => ab, cd" in t and "OPERATOR(+) => ab" in t, dict(printed=t)


def c02_blanks_of_a_literal_in_a_function_prefix():
    """D70 (fixed): a literal with a run of blanks in the type of a function prefix lost blanks"""
    t = _printed("pure  character(len=len('a  b'))  elemental function f()\nend function f\ncharacter(len=len('c   d')) function g()\nend function g\n")
    return "LEN('a  b')" in t and "LEN('c   d')" in t, dict(printed=t)


def c06_named_end_of_unnamed_unit():
    """D43 (fixed)"""
    return _only_syntax_error("block data\nend block data foo\n")


def c06_edit_descriptor_without_width():
    """D44 (fixed)"""
    return _only_syntax_error("program p\n100 format(1x, e)\nend program p\n")


def c06_cray_pointer_without_pointee():
    """D45 (fixed)"""
    return _only_syntax_error("program p\npointer (a,)\nend program p\n")


def c06_identifier_collides_with_placeholder():
    """D46: KeyError from the inverse placeholder map"""
    return _only_syntax_error("program p\nx = (F2PY_EXPR_TUPLE_7 + 1)\nend program p\n")


def c16_block_inside_nonblock_do_gets_two_tables():
    """D48"""
    from fparser.two.symbol_table import SYMBOL_TABLES
    _parser("f2008")(_reader("subroutine w(a)\n real a(3)\n do 10 i=1,3\n block\n integer :: sum\n sum = 1\n end block\n10 a(i) = 1\nend subroutine w\n"))
    kids = [c.name for c in SYMBOL_TABLES.lookup("w").children]
    return len(kids) == 1, dict(child_tables=kids)


def c16_derived_type_declaration_does_not_shadow():
    """D49"""
    from fparser.two import Fortran2003 as F
    from fparser.two.utils import walk
    t = _parser()(_reader("module m\n type thing\n integer :: k\n end type thing\ncontains\n subroutine s\n type(thing) :: size(3)\n x = size(1)\n end subroutine s\nend module m\n"))
    wrong = [str(n) for n in walk(t, F.Intrinsic_Function_Reference)]
    return not wrong, dict(parsed_as_intrinsic=wrong)


def c05_zero_in_column_6_is_not_a_continuation():
    """D50 (fixed)"""
    from fparser.common.sourceinfo import FortranFormat
    r = _reader("      program p\n      integer i\n     0i = 1\n      end\n")
    r.set_format(FortranFormat(False, False))
    t = str(_parser()(r))
    return "INTEGER :: i\n" in t and "i = 1" in t, dict(printed=t)


def c13_directory_named_like_the_include_file():
    """D51 (fixed)"""
    import os, tempfile
    with tempfile.TemporaryDirectory() as d:
        os.mkdir(os.path.join(d, "a")); os.mkdir(os.path.join(d, "b")); os.mkdir(os.path.join(d, "a", "x.inc"))
        open(os.path.join(d, "b", "x.inc"), "w").write("i = 7\n")
        t = str(_parser()(_reader("program p\ninteger i\ninclude 'x.inc'\nend program p\n", include_dirs=[os.path.join(d, "a"), os.path.join(d, "b")])))
    return "i = 7" in t and "INCLUDE" not in t, dict(printed=t)


def c02_initialiser_after_parenthesised_char_length():
    """D52 (fixed)"""
    t = _printed("program p\ncharacter :: c*(n+1) = 'x'\nend program p\n")
    return "= 'x'" in t, dict(printed=t)


def _only_syntax_error_free(src, std="f2003"):
    """the (valid) source parses"""
    try:
        str(_parser(std)(_reader(src)))
        return True, dict(outcome="parsed")
    except BaseException as e:  # noqa
        return False, dict(outcome="%s: %s" % (type(e).__name__, str(e)[:100].replace("\n", " | ")))


def c07_error_inside_include_file_is_located_at_the_include_line():
    """D53"""
    import os, tempfile
    from fparser.two.utils import FortranSyntaxError
    with tempfile.TemporaryDirectory() as d:
        open(os.path.join(d, "bad.inc"), "w").write("i = 1\n@@ garbage\n")
        try:
            _parser()(_reader("program p\ninteger i\ninclude 'bad.inc'\ni = 2\nend program p\n", include_dirs=[d]))
            return False, dict(outcome="accepted")
        except FortranSyntaxError as e:
            return "@@ garbage" in str(e), dict(message=str(e)[:120])


def c13_include_file_with_lines_starting_with_c_is_read_as_comments():
    """D10b"""
    import os, tempfile
    with tempfile.TemporaryDirectory() as d:
        open(os.path.join(d, "c.inc"), "w").write("call foo(i)\ncall bar(i)\n")
        t = str(_parser()(_reader("program p\ninteger i\ninclude 'c.inc'\ni = 1\nend program p\n", include_dirs=[d])))
    return "CALL foo(i)" in t, dict(printed=t)


def c14_include_with_angle_brackets_is_reprinted_with_quotes():
    """D54"""
    t = _printed("program p\n#include <foo.h>\nx = 1\nend program p\n")
    return "<foo.h>" in t, dict(printed=t)


def c14_comment_after_ifdef_is_rejected():
    """D55"""
    return _only_syntax_error_free("program p\n#ifdef X /* c */\nx = 1\n#endif\nend program p\n")


def c14_directive_between_components_splits_the_component_part():
    """D56"""
    from fparser.two import Fortran2003 as F
    from fparser.two.utils import walk
    t = _parser()(_reader("module m\n type t\n  integer :: a\n#ifdef X\n  integer :: b\n#endif\n end type t\nend module m\n"))
    n = len(walk(t, F.Component_Part))
    return n == 1, dict(component_parts=n)


def c01_p_edit_descriptor_without_comma_changes_tree_on_reparse():
    """D57"""
    t = _parser()(_reader("program p\n10 format(1pe12.4)\nend program p\n"))
    t2 = _parser()(_reader(str(t) + "\n"))
    return repr(t) == repr(t2), dict(printed=str(t))


def c03_identifier_ending_in_digit_e_is_taken_for_an_exponent():
    """D58"""
    return _only_syntax_error_free("program p\nx = a*2e-3 + n2e-3\nend program p\n")


def c02_tab_inside_character_literal_is_expanded():
    """D59"""
    t = _printed("program p\ns = 'a\tb'\nend program p\n")
    return "'a\tb'" in t, dict(printed=t)


def c02_statement_after_leading_semicolon_is_lost():
    """D60"""
    t = _printed("program p\nx = 1\n; a = 1\nb = 2\nend program p\n", "f2008")
    return "a = 1" in t, dict(printed=t)


def c04_continuation_between_construct_name_and_colon():
    """D61"""
    a = _only_syntax_error_free("program p\nouter &\n  : do i = 1, 3\nend do outer\nend program p\n")
    b = _only_syntax_error_free("program p\ninteger :&\n      &: i, total\nend program p\n")
    return a[0] and b[0], dict(name_colon=a[1], double_colon=b[1])


def c05_blanks_at_the_end_of_a_continued_fixed_form_literal_are_lost():
    """D62"""
    from fparser.common.sourceinfo import FortranFormat
    r = _reader("      program p\n      s = 'abc   \n     &def'\n      end\n")
    r.set_format(FortranFormat(False, False))
    t = str(_parser()(r))
    return "'abc   def'" in t, dict(printed=t)


def c11_inline_directive_after_a_literal_becomes_a_directive_node():
    """D63"""
    from fparser.two import Fortran2003 as F
    from fparser.two.utils import walk
    a = _parser()(_reader("program p\ns = 'a' !$omp foo\nend program p\n", ignore_comments=False, process_directives=True))
    b = _parser()(_reader("program p\ns = 1 !$omp foo\nend program p\n", ignore_comments=False, process_directives=True))
    ka = [type(n).__name__ for n in walk(a, (F.Comment, F.Directive))]
    kb = [type(n).__name__ for n in walk(b, (F.Comment, F.Directive))]
    return ka == kb, dict(after_literal=ka, after_number=kb)


def c09_system_exit_leaves_the_scope_open():
    """D4e"""
    from fparser.two.symbol_table import SYMBOL_TABLES
    p = _parser()
    before = _tables_state()
    try:
        p(_reader("module m\ncontains\nsubroutine s()\nend subroutine t\nend module m\n"))
        outcome = "accepted"
    except BaseException as e:  # noqa
        outcome = type(e).__name__
    after = _tables_state()
    SYMBOL_TABLES.clear()
    return after == before, dict(outcome=outcome, before=before, after=after)


def c14_directive_between_shared_label_do_statements():
    """D64"""
    return _only_syntax_error_free("subroutine w(a, n)\n  integer n, i, j\n  real a(n, n)\n  do 10 i = 1, n\n#define N 3\n  do 10 j = 1, n\n    a(i, j) = 0\n10 continue\nend subroutine w\n")


def c08_implicit_spec_with_surplus_parenthesis():
    """D65"""
    return _rejected("subroutine s\n  implicit real (a-h, o-z), integer ((i-n)\n  x = 1\nend subroutine s\n")


def c14_directive_backslash_at_eof():
    """D9: a directive whose last line ends in a backslash at end of input is lost"""
    r = _reader("x = 1\n#define X \\\n")
    items = []
    while True:
        it = r.get_item()
        if it is None:
            break
        items.append(it.line)
    return any(i.startswith("#define") for i in items), dict(items=items)


def c13_include_redetects_format():
    """D10: an include file with 5-blank indented free-form statements is re-detected as fixed form"""
    import tempfile
    from fparser.common.readfortran import FortranFileReader
    from fparser.two.utils import FortranSyntaxError
    with tempfile.TemporaryDirectory() as d:
        open(os.path.join(d, "body.inc"), "w").write("     x = 1\n")
        open(os.path.join(d, "main.f90"), "w").write("program p\n     include 'body.inc'\nend program p\n")
        p = _parser()
        try:
            tree = p(FortranFileReader(os.path.join(d, "main.f90"), include_dirs=[d]))
            return "x = 1" in str(tree), dict(printed=str(tree))
        except FortranSyntaxError as e:
            return False, dict(outcome="FortranSyntaxError", message=str(e)[:200])


def c18_deepcopy_with_comment():
    """D11: deepcopy / pickle of a tree containing a comment"""
    import copy
    import pickle
    p = _parser()
    tree = p(_reader("program p\n! hello\nend program p\n", ignore_comments=False))
    try:
        c = copy.deepcopy(tree)
        q = pickle.loads(pickle.dumps(tree))
        ok = str(c) == str(tree) == str(q)
        return ok, dict(copy=str(c))
    except BaseException as e:  # noqa
        return False, dict(outcome=type(e).__name__, message=str(e)[:200])


def c17_open_without_unit():
    """D12: open(file='x') accepted by f2003, rejected by f2008"""
    src = "program p\nopen(file='x')\nend program p\n"
    a, ia = _rejected(src, "f2003")
    b, ib = _rejected(src, "f2008")
    # property: whatever f2003 accepts f2008 accepts
    return not ((not a) and b), dict(f2003=ia, f2008=ib)


SCENARIOS = {k: v for k, v in list(globals().items()) if k[:1] == "c" and k[1:3].isdigit() and callable(v)}


def main(argv):
    if "--list" in argv:
        for k, v in sorted(SCENARIOS.items()):
            print(k, "-", (v.__doc__ or "").strip())
        return 0
    if "--replay" in argv:
        data = json.load(open(argv[argv.index("--replay") + 1]))
        name = (data.get("witness") or {}).get("scenario")
        if name is None:
            print("no scenario recorded; obligation:", data.get("obligation"))
            print((data.get("solver_output") or "")[:2000])
            return 0
    else:
        name = argv[0]
    ok, info = SCENARIOS[name]()
    print(json.dumps(dict(scenario=name, holds=ok, observed=info), default=str))
    return 0 if ok else 1


if __name__ == "__main__":
    sys.exit(main(sys.argv[1:]))
