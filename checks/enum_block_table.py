"""F12 [E]: the call-site table of BlockBase.match and the class facts its contract relies on.

For every function in Fortran2003.py / Fortran2008/*.py that calls BlockBase.match the arguments are read
from the AST of the real source and the classes are resolved on the imported package.  Checked:

  table.start_is_statement   startcls is None or a statement class (not a BlockBase): justifies the
                             statement-level protocol contract used for startcls(reader)
  table.flags_need_start     match_labels / match_names / do-label hook only with a start class
  table.labelled_do          the hook is enabled only with a Label_Do_Stmt class, whose instances have
                             get_start_label and are not scoping regions (facts never_scoping, labelled_do_class)
  table.construct_has_end    every construct named in property C08 is matched with an end class
  table.end_name_checked     ... and with match_names (C08: an END carrying a different name is rejected)
  scoping.exact_set          the classes deriving from ScopingRegionMixin are exactly the scoping statements
                             of property C16
"""
import ast
import inspect
import json
import os
import sys
import time

REPO = os.environ.get("VERIF_REPO", "/repo")
if REPO != "/repo":
    sys.path.insert(0, os.path.join(REPO, "src"))
sys.dont_write_bytecode = True
SRC = os.path.join(REPO, "src", "fparser", "two")

# constructs named in C08 -> rule classes that implement them
C08_CONSTRUCTS = {
    "IF": ["If_Construct"], "DO": ["Block_Label_Do_Construct", "Block_Nonlabel_Do_Construct"],
    "SELECT CASE": ["Case_Construct"], "SELECT TYPE": ["Select_Type_Construct"], "WHERE": ["Where_Construct"],
    "FORALL": ["Forall_Construct"], "ASSOCIATE": ["Associate_Construct"], "BLOCK": ["Block_Construct"],
    "CRITICAL": ["Critical_Construct"], "TYPE": ["Derived_Type_Def"], "INTERFACE": ["Interface_Block"],
    "MODULE": ["Module"], "SUBMODULE": ["Submodule"], "PROGRAM": ["Main_Program"],
    "FUNCTION": ["Function_Subprogram"], "SUBROUTINE": ["Subroutine_Subprogram"],
}
C16_SCOPING = {"Program_Stmt", "Module_Stmt", "Submodule_Stmt", "Function_Stmt", "Subroutine_Stmt", "Block_Stmt"}


def call_sites():
    files = [os.path.join(SRC, "Fortran2003.py")] + sorted(
        os.path.join(SRC, "Fortran2008", f) for f in os.listdir(os.path.join(SRC, "Fortran2008")) if f.endswith(".py"))
    for path in files:
        tree = ast.parse(open(path, encoding="utf-8").read())
        for cls in [n for n in tree.body if isinstance(n, ast.ClassDef)]:
            for fn in [n for n in cls.body if isinstance(n, ast.FunctionDef)]:
                for call in [n for n in ast.walk(fn) if isinstance(n, ast.Call)]:
                    f = call.func
                    if isinstance(f, ast.Attribute) and f.attr == "match" and isinstance(f.value, ast.Name) and f.value.id == "BlockBase":
                        yield os.path.relpath(path, SRC), cls.name, fn.name, call


def name_of(e):
    if isinstance(e, ast.Constant):
        return e.value
    if isinstance(e, ast.Name):
        return e.id
    if isinstance(e, ast.Attribute):
        return e.attr
    return ast.unparse(e)


def main(argv):
    t0 = time.time()
    from fparser.two import Fortran2003, Fortran2008
    from fparser.two.utils import BlockBase, StmtBase, ScopingRegionMixin, Base
    failures, rows = [], []

    def resolve(modrel, name):
        mod = Fortran2008 if modrel.startswith("Fortran2008") else Fortran2003
        return getattr(mod, name, None) or getattr(Fortran2003, name, None)

    for rel, clsname, fn, call in call_sites():
        args = [name_of(a) for a in call.args]
        kws = {k.arg: name_of(k.value) for k in call.keywords}
        start, end = (args + [None, None, None])[0], (args + [None, None, None])[2]
        row = dict(module=rel, cls=clsname, function=fn, startcls=start, endcls=end,
                   match_names=bool(kws.get("match_names")), strict_match_names=bool(kws.get("strict_match_names")),
                   match_labels=bool(kws.get("match_labels")), do_hook=bool(kws.get("enable_do_label_construct_hook")))
        rows.append(row)
        wit = dict(module=rel, cls=clsname)
        import re as _re
        m = _re.fullmatch(r"cls\.(\w+)\(\)", start) if isinstance(start, str) else None
        if m:
            # the start class is supplied by a static method of the rule class (overridden under f2008)
            owner = resolve(rel, clsname)
            sc = getattr(owner, m.group(1))() if owner is not None else None
            row["startcls"] = start = sc.__name__ if sc is not None else start
            o8 = getattr(Fortran2008, clsname, None)
            if o8 is not None and o8 is not owner:
                s8 = getattr(o8, m.group(1))()
                if not (inspect.isclass(s8) and issubclass(s8, StmtBase) and not issubclass(s8, ScopingRegionMixin)):
                    failures.append(dict(obligation="F12.table#start_is_statement", witness=wit, observed="f2008 start class %r" % s8))
        else:
            sc = resolve(rel, start) if isinstance(start, str) else None
        if start is not None:
            if sc is None or not inspect.isclass(sc):
                failures.append(dict(obligation="F12.table#start_is_statement", witness=wit, observed="start class %r not resolvable" % start))
            elif issubclass(sc, BlockBase) and clsname != "Program":
                failures.append(dict(obligation="F12.table#start_is_statement", witness=wit, observed="start class %s is a block rule" % start))
        if (row["match_names"] or row["match_labels"] or row["do_hook"]) and start is None:
            failures.append(dict(obligation="F12.table#flags_need_start", witness=wit, observed=row))
        if row["do_hook"]:
            ok = sc is not None and hasattr(sc, "get_start_label") and not issubclass(sc, ScopingRegionMixin) \
                and sc.__name__ == "Label_Do_Stmt"
            subs = [c for c in _all_subclasses(sc)] if sc is not None else []
            ok = ok and all(hasattr(c, "get_start_label") and not issubclass(c, ScopingRegionMixin) for c in subs)
            if not ok:
                failures.append(dict(obligation="F12.table#labelled_do", witness=wit, observed=dict(start=start)))
    by_cls = {}
    for r in rows:
        by_cls.setdefault(r["cls"], []).append(r)
    for construct, classes in C08_CONSTRUCTS.items():
        for c in classes:
            rs = by_cls.get(c)
            if not rs:
                failures.append(dict(obligation="F12.table#construct_has_end", witness=dict(construct=construct, cls=c), observed="no BlockBase.match call found"))
                continue
            for r in rs:
                wit = dict(construct=construct, cls=c, module=r["module"])
                if r["endcls"] is None or r["startcls"] is None:
                    failures.append(dict(obligation="F12.table#construct_has_end", witness=wit, observed=r))
                if not r["match_names"]:
                    failures.append(dict(obligation="F12.table#end_name_checked", witness=wit,
                                         observed="matched without match_names: an END name that differs from the opening name is not rejected by the block rule"))
    # block protocol (proto:block_match, assumed by Base.__new__@rule): every match(reader) is one `return BlockBase.match(...)`
    # (the contract proved for BlockBase.match then is the contract of the rule) or is itself under contract
    UNDER_CONTRACT = {"Program", "Main_Program0", "Component_Part", "Outer_Shared_Do_Construct", "Inner_Shared_Do_Construct", "BlockBase"}
    files = [os.path.join(SRC, "Fortran2003.py"), os.path.join(SRC, "utils.py"), os.path.join(SRC, "C99Preprocessor.py")] + sorted(
        os.path.join(SRC, "Fortran2008", f) for f in os.listdir(os.path.join(SRC, "Fortran2008")) if f.endswith(".py"))
    n_reader_rules = 0
    for path in files:
        tree = ast.parse(open(path, encoding="utf-8").read())
        for cls in [n for n in ast.walk(tree) if isinstance(n, ast.ClassDef)]:
            for fn in [n for n in cls.body if isinstance(n, ast.FunctionDef) and n.name == "match"]:
                if "reader" not in [a.arg for a in fn.args.args]:
                    continue
                n_reader_rules += 1
                body = [b for b in fn.body if not (isinstance(b, ast.Expr) and isinstance(b.value, ast.Constant))]
                if len(body) == 2 and isinstance(body[0], ast.Assign) and isinstance(body[1], ast.Return) and isinstance(body[1].value, ast.Name) \
                        and len(body[0].targets) == 1 and isinstance(body[0].targets[0], ast.Name) and body[0].targets[0].id == body[1].value.id:
                    body = [ast.Return(value=body[0].value)]           # result = BlockBase.match(...); return result
                delegates = len(body) == 1 and isinstance(body[0], ast.Return) and isinstance(body[0].value, ast.Call) \
                    and ast.unparse(body[0].value.func) == "BlockBase.match"
                if not delegates and cls.name not in UNDER_CONTRACT:
                    failures.append(dict(obligation="F12.table#reader_rule_delegates_or_is_under_contract", witness=dict(file=os.path.relpath(path, SRC), cls=cls.name),
                                         observed="match(reader) with %d statements, not a single call of BlockBase.match" % len(body)))
    if n_reader_rules < 30:
        failures.append(dict(obligation="F12.table#reader_rule_delegates_or_is_under_contract", witness=dict(), observed="only %d match(reader) found" % n_reader_rules))
    # scoping classes
    scoping = set()
    for mod in (Fortran2003, Fortran2008):
        for n, c in inspect.getmembers(mod, inspect.isclass):
            if issubclass(c, ScopingRegionMixin) and c is not ScopingRegionMixin:
                scoping.add(n)
    if scoping != C16_SCOPING:
        failures.append(dict(obligation="F12.scoping#exact_set", witness=dict(), observed=dict(found=sorted(scoping), expected=sorted(C16_SCOPING))))
    # the two label-do classes DynamicImport hands to BlockBase.match
    from fparser.two.utils import DynamicImport
    for c in (getattr(DynamicImport, "Label_Do_Stmt", None), getattr(DynamicImport, "Label_Do_Stmt_2008", None)):
        if c is None:
            continue        # the attribute is looked up by BlockBase.match itself; its absence there is an AttributeError the proof side sees
        if issubclass(c, ScopingRegionMixin) or not hasattr(c, "get_start_label"):
            failures.append(dict(obligation="F12.table#labelled_do", witness=dict(cls=c.__name__), observed="class fact violated"))
    print(json.dumps(dict(name="enum_block_table", cases=len(rows) + len(C08_CONSTRUCTS) + 1, distinct=len(rows), exhaustive=True,
                          failures=failures, samples=rows[:4], table=rows,
                          rule="every call of BlockBase.match in Fortran2003.py and Fortran2008/*.py; every construct named in C08; the ScopingRegionMixin subclasses",
                          assumptions=["call arguments are read syntactically from the call expression (all call sites pass class names and literal flags)"],
                          seconds=round(time.time() - t0, 2))))
    return 0


def _all_subclasses(c):
    out = []
    for s in c.__subclasses__():
        out.append(s)
        out += _all_subclasses(s)
    return out


def replay(path):
    data = json.load(open(path))
    print("witness:", data.get("witness"), "observed at check time:", data.get("observed"))
    return 1


if __name__ == "__main__":
    if "--replay" in sys.argv:
        sys.exit(replay(sys.argv[sys.argv.index("--replay") + 1]))
    sys.exit(main(sys.argv[1:]))
