"""Reference functions written from the Fortran standard (free-form lexing, expression precedence
R702-R723).  They are used only as oracles in
postconditions of real fparser functions (bounded stand-ins); none of them is verified in place of fparser.
"""
import re

# ------------------------------------------------------------------------------------- expressions
# precedence levels, loosest first (R722 ... R704); each: (operators, associativity)
BIN_LEVELS = [
    (("DEFINED",), "left"),                  # defined binary operator .xxx.      (R723)
    ((".eqv.", ".neqv."), "left"),           # R717
    ((".or.",), "left"),                     # R716
    ((".and.",), "left"),                    # R715
    # .not. (unary) sits here                 R714
    (("==", "/=", "<=", ">=", "<", ">", ".eq.", ".ne.", ".lt.", ".le.", ".gt.", ".ge."), "none"),   # R712 (non-associative)
    (("//",), "left"),                       # R711
    (("+", "-"), "left"),                    # R706 (binary and unary)
    (("*", "/"), "left"),                    # R705
    (("**",), "right"),                      # R704
]
INTRINSIC_DOTTED = {".eqv.", ".neqv.", ".or.", ".and.", ".not.", ".eq.", ".ne.", ".lt.", ".le.", ".gt.", ".ge.", ".true.", ".false."}

TOKEN_RE = re.compile(r"""
    \s*(?:
      (?P<str>'(?:[^']|'')*'|"(?:[^"]|"")*")
    | (?P<num>(?:\d+\.\d*|\.\d+|\d+)(?:[edED][+-]?\d+)?(?:_\w+)?)
    | (?P<dot>\.[a-zA-Z]+\.)
    | (?P<name>[a-zA-Z]\w*)
    | (?P<op>\*\*|//|==|/=|<=|>=|[-+*/<>(),%=:])
    )""", re.X)


def tokens(s):
    out, pos = [], 0
    s = s.rstrip()
    while pos < len(s):
        m = TOKEN_RE.match(s, pos)
        if not m or m.end() == pos:
            raise ValueError("cannot lex %r at %d" % (s, pos))
        kind = m.lastgroup
        out.append((kind, m.group(kind)))
        pos = m.end()
    return out


class _P:
    def __init__(self, toks):
        self.t = toks
        self.i = 0

    def peek(self):
        return self.t[self.i] if self.i < len(self.t) else (None, None)

    def next(self):
        tok = self.peek()
        self.i += 1
        return tok

    def is_defined_op(self, tok):
        return tok[0] == "dot" and tok[1].lower() not in INTRINSIC_DOTTED

    def level(self, k):
        if k == len(BIN_LEVELS):
            return self.level1()
        ops, assoc = BIN_LEVELS[k]
        if ops == (".and.",):
            sub = lambda: self.not_level(k + 1)     # noqa: E731
        elif ops == ("+", "-"):
            return self.add_level(k)
        else:
            sub = lambda: self.level(k + 1)         # noqa: E731
        if assoc == "right":
            left = sub()
            tok = self.peek()
            if tok[1] is not None and tok[1].lower() in ops:
                self.next()
                right = self.level(k)               # right recursion
                return "(%s %s %s)" % (left, tok[1].upper(), right)
            return left
        left = sub()
        while True:
            tok = self.peek()
            hit = (ops == ("DEFINED",) and tok[0] is not None and self.is_defined_op(tok)) or \
                  (tok[1] is not None and tok[1].lower() in ops and tok[0] in ("op", "dot"))
            if not hit:
                return left
            self.next()
            right = sub()
            left = "(%s %s %s)" % (left, tok[1].upper(), right)
            if assoc == "none":
                return left

    def not_level(self, k):
        tok = self.peek()
        if tok[0] == "dot" and tok[1].lower() == ".not.":
            self.next()
            return "(.NOT. %s)" % self.level(k)
        return self.level(k)

    def add_level(self, k):
        # level-2-expr is [[level-2-expr] add-op] add-operand: a leading sign applies to the first add-operand
        tok = self.peek()
        if tok[0] == "op" and tok[1] in "+-":
            self.next()
            left = "(%s %s)" % (tok[1], self.level(k + 1))
        else:
            left = self.level(k + 1)
        while True:
            tok = self.peek()
            if not (tok[0] == "op" and tok[1] in ("+", "-")):
                return left
            self.next()
            right = self.level(k + 1)
            left = "(%s %s %s)" % (left, tok[1], right)

    def level1(self):
        tok = self.peek()
        if tok[0] is not None and self.is_defined_op(tok):
            self.next()
            return "(%s %s)" % (tok[1].upper(), self.primary())
        return self.primary()

    def primary(self):
        kind, text = self.next()
        if kind == "op" and text == "(":
            inner = self.level(0)
            k2, t2 = self.next()
            if t2 != ")":
                raise ValueError("expected )")
            return "[%s]" % inner          # parentheses are retained as a node
        if kind in ("num", "str"):
            return text if kind == "str" else text.upper()
        if kind == "dot":
            return text.upper()
        if kind == "name":
            out = text
            while True:
                k2, t2 = self.peek()
                if t2 == "(":
                    depth = 0
                    args = ""
                    while True:
                        k3, t3 = self.next()
                        if t3 is None:
                            raise ValueError("unbalanced")
                        args += t3
                        if t3 == "(":
                            depth += 1
                        elif t3 == ")":
                            depth -= 1
                            if depth == 0:
                                break
                    out += args
                elif t2 == "%":
                    self.next()
                    out += "%" + self.next()[1]
                else:
                    break
            return out
        raise ValueError("unexpected token %r" % (text,))


def parse_expr(text):
    p = _P(tokens(text))
    out = p.level(0)
    if p.i != len(p.t):
        raise ValueError("trailing tokens in %r" % text)
    return out


def fparser_paren(node):
    """fully parenthesised rendering of an fparser2 expression tree, same notation as parse_expr"""
    from fparser.two import Fortran2003 as F
    from fparser.two.utils import BinaryOpBase, UnaryOpBase
    if isinstance(node, F.Parenthesis):
        return "[%s]" % fparser_paren(node.items[1])
    if isinstance(node, BinaryOpBase):
        return "(%s %s %s)" % (fparser_paren(node.items[0]), str(node.items[1]).upper(), fparser_paren(node.items[2]))
    if isinstance(node, UnaryOpBase):
        return "(%s %s)" % (str(node.items[0]).upper(), fparser_paren(node.items[1]))
    s = str(node)
    if isinstance(node, (F.Real_Literal_Constant, F.Int_Literal_Constant, F.Logical_Literal_Constant)):
        return s.upper()
    return s.replace(" ", "")


# ----------------------------------------------------------------------------- free-form logical lines
def strip_blanks_outside_literals(text):
    out, q = [], None
    for ch in text:
        if q:
            out.append(ch)
            if ch == q:
                q = None
        elif ch in "'\"":
            q = ch
            out.append(ch)
        elif ch not in " \t":
            out.append(ch)
    return "".join(out)
