"""Regenerate MANIFEST.json from checks/registry.py (run: python3-vt tools/gen_manifest.py)."""
import json, os, sys
ROOT = os.path.dirname(os.path.dirname(os.path.abspath(__file__)))
sys.path.insert(0, ROOT); sys.path.insert(0, os.path.join(ROOT, "checks"))
import registry
props = [json.loads(l) for l in open(os.path.join(ROOT, "properties.jsonl"))]
checks, na = [], []
for p in props:
    pid = p["id"]
    spec = registry.PROPS.get(pid)
    if spec is None or spec.get("not_applicable"):
        na.append(dict(property_id=pid, reason=(spec or {}).get("not_applicable", "check not built yet")))
        continue
    checks.append(dict(
        property_id=pid,
        quick_cmd="python3-vt -m pyvc.check --property %s --tier quick" % pid,
        thorough_cmd="python3-vt -m pyvc.check --property %s --tier thorough" % pid,
        evidence_file="/verif/evidence/%s.json" % pid,
        replay_cmd_template="python3-vt -m pyvc.replay {path}",
        engine="pyvc",
        level_claimed=dict(category=spec.get("level", "other"), text=spec["claim"], design_ref=spec.get("design_ref", "DESIGN.md section 6/" + pid)),
        level_note=spec["trusted"],
        technique=spec.get("technique", "contract-based deductive verification: VCs generated from the AST of the real functions (pyvc), discharged by cvc5/z3; bounded stand-ins and exhaustive enumerations where stated"),
    ))
m = dict(version=1,
         setup_cmd="python3-vt -m pyvc.check --setup",
         hooks=dict(guard="FPARSER_VERIF", enable="no hooks in /repo: contracts are sidecar files under /verif/contracts (guard name reserved, unused)",
                    baseline_off_cmd="cd /repo && /venv/bin/python -m pytest -q -p no:cacheprovider --timeout=900", source_commits=[], add_only=True),
         engines=[dict(name="pyvc", path="/verif/pyvc", serves_properties=[c["property_id"] for c in checks],
                       kind_free_text="home-made deductive verifier: symbolic execution of the Python AST of the real functions against sidecar contracts, per-path SMT-LIB VCs, portfolio cvc5 1.0.3 / z3 4.8.12 / z3 5.1.0; executable contracts for bounded stand-ins and replay")],
         checks=checks, notes="see DESIGN.md", not_applicable=na)
json.dump(m, open(os.path.join(ROOT, "MANIFEST.json"), "w"), indent=1)
import jsonschema
jsonschema.validate(m, json.load(open("/root/.vp/MANIFEST.schema.json")))
print("MANIFEST.json: %d checks, %d not applicable" % (len(checks), len(na)))
