#!/bin/bash
# confirm a sub-agent's change in its scratch worktree: tests pass with it, demo fails with it and passes without
id=$1; wt=/tmp/wt_$id
cd $wt || exit 2
git diff --quiet -- src && git apply patch.diff
t=$(PYTHONPATH=$wt/src /venv/bin/python -m pytest -q -p no:cacheprovider 2>&1 | tail -1)
PYTHONPATH=$wt/src timeout 300 /venv/bin/python demo.py >/tmp/demo_with_$id.txt 2>&1; w=$?
git apply -R patch.diff
PYTHONPATH=$wt/src timeout 300 /venv/bin/python demo.py >/tmp/demo_without_$id.txt 2>&1; wo=$?
git apply patch.diff
echo "$id tests: $t | demo with change: $w | without: $wo | files changed: $(git diff --stat -- src | tail -1)"
