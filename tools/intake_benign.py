"""Take the behaviour-preserving refactorings produced in a scratch worktree (patch1.diff, patch2.diff, ...) into
/verif/benign/<name>-<j>/: confirm the test suite passes with each, find the functions under contract whose source changed
and record the properties whose checks have to stay quiet.
usage: python3-vt tools/intake_benign.py <worktree> <name>"""
import ast, glob, json, os, shutil, subprocess, sys
ROOT = os.path.dirname(os.path.dirname(os.path.abspath(__file__)))
sys.path.insert(0, ROOT)
from pyvc import contracts as C  # noqa: E402

wt, name = sys.argv[1], sys.argv[2]
C.load_all()


def functions(path):
    out = {}
    try:
        tree = ast.parse(open(path).read())
    except (OSError, SyntaxError):
        return out

    def walk(body, prefix):
        for n in body:
            if isinstance(n, ast.ClassDef):
                walk(n.body, prefix + n.name + ".")
            elif isinstance(n, (ast.FunctionDef, ast.AsyncFunctionDef)):
                out[prefix + n.name] = ast.dump(n)
                walk(n.body, prefix + n.name + ".")
    walk(tree.body, "")
    return out


for j, patch in enumerate(sorted(glob.glob(os.path.join(wt, "patch*.diff"))), 1):
    scratch = "/tmp/benign_intake"
    shutil.rmtree(scratch, ignore_errors=True)
    subprocess.run(["git", "clone", "-q", "/repo", scratch], check=True)
    r = subprocess.run(["git", "-C", scratch, "apply", patch], capture_output=True, text=True)
    if r.returncode != 0:
        print(name, j, "PATCH DOES NOT APPLY", r.stderr[:200])
        continue
    files = subprocess.run(["git", "-C", scratch, "diff", "--name-only"], capture_output=True, text=True).stdout.split()
    changed = []
    for f in files:
        if not f.endswith(".py"):
            continue
        mod = f[len("src/"):-3].replace("/", ".")
        before, after = functions(os.path.join("/repo", f)), functions(os.path.join(scratch, f))
        for q in sorted(set(before) | set(after)):
            if before.get(q) != after.get(q):
                changed.append("%s:%s" % (mod, q))
    t = subprocess.run(["/venv/bin/python", "-m", "pytest", "-q", "-p", "no:cacheprovider", "-x"], cwd=scratch, capture_output=True, text=True,
                       env=dict(os.environ, PYTHONPATH=os.path.join(scratch, "src")))
    tests = (t.stdout.strip().splitlines() or ["?"])[-1]
    props, fids = set(), []
    for fid, con in C.CONTRACTS.items():
        if con.trusted:
            continue
        base = fid.split("@")[0]
        if base in changed:
            fids.append(fid)
            props.update(con.serves or [])
    d = os.path.join(ROOT, "benign", "%s-%d" % (name, j))
    os.makedirs(d, exist_ok=True)
    shutil.copy(patch, os.path.join(d, "patch.diff"))
    notes = open(os.path.join(wt, "NOTES.md")).read() if os.path.exists(os.path.join(wt, "NOTES.md")) else ""
    json.dump(dict(origin="fresh sub-agent asked for behaviour-preserving refactorings (no access to /verif)", tests=tests, changed_functions=changed,
                   contracts_touched=fids, check_properties=sorted(props) or ["C10"], notes=notes),
              open(os.path.join(d, "meta.json"), "w"), indent=1)
    print("%s-%d" % (name, j), tests, "| changed:", ", ".join(c.split(":")[1] for c in changed), "| properties:", " ".join(sorted(props)))
    shutil.rmtree(scratch, ignore_errors=True)
