#!/bin/bash
# usage: tools/intake_seeded.sh <Cxx> <worktree dir> <n>   -- confirm a sub-agent's change, keep it as seeded/<Cxx>-<n>, remove the worktree
id=$1; wt=$2; n=$3
cd $wt || exit 2
git diff --quiet -- src && git apply patch.diff
t=$(PYTHONPATH=$wt/src /venv/bin/python -m pytest -q -p no:cacheprovider 2>&1 | tail -1)
PYTHONPATH=$wt/src timeout 600 /venv/bin/python demo.py >/dev/null 2>&1; w=$?
git apply -R patch.diff
PYTHONPATH=$wt/src timeout 600 /venv/bin/python demo.py >/dev/null 2>&1; wo=$?
echo "$id-$n tests: $t | demo with change: $w | without: $wo"
case "$t" in *"2939 passed"*) ;; *) echo "NOT KEPT (tests)"; exit 1;; esac
if [ $w -ne 1 ] || [ $wo -ne 0 ]; then echo "NOT KEPT (demo)"; exit 1; fi
d=/verif/seeded/$id-$n; mkdir -p $d
cp patch.diff $d/patch.diff; cp demo.py $d/demonstration.py
python3 - $id $wt $n <<'PY'
import json,sys
id,wt,n=sys.argv[1:4]
notes=open(wt+'/NOTES.md').read()[:1800]
json.dump({"property":id,"origin":"fresh sub-agent given only the property text and a scratch worktree","needs_to_manifest":notes,
 "confirmed":{"cmd":"tools/intake_seeded.sh %s %s %s"%(id,wt,n),"tests_with_change":"2939 passed","demo_with_change_exit":1,"demo_without_change_exit":0},"detected_by":{}},
 open('/verif/seeded/%s-%s/meta.json'%(id,n),'w'),indent=1)
PY
cd /; git -C /repo worktree remove --force $wt
