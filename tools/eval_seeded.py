"""Apply each kept change of /verif/seeded to /repo, run the quick check of its property, undo it.
usage: python3-vt tools/eval_seeded.py [ids...]"""
import json, os, subprocess, sys, time
ROOT = os.path.dirname(os.path.dirname(os.path.abspath(__file__)))
ids = sys.argv[1:] or sorted(os.listdir(os.path.join(ROOT, "seeded")))
for i in ids:
    d = os.path.join(ROOT, "seeded", i)
    meta = json.load(open(os.path.join(d, "meta.json")))
    props = meta.get("check_properties") or [meta["property"]]
    subprocess.run(["git", "-C", "/repo", "checkout", "--", "."], check=True)
    r = subprocess.run(["git", "-C", "/repo", "apply", os.path.join(d, "patch.diff")])
    if r.returncode != 0:
        print(i, "PATCH DOES NOT APPLY"); continue
    try:
        out = {}
        for p in props:
            t0 = time.time()
            pr = subprocess.run(["python3-vt", "-m", "pyvc.check", "--property", p, "--tier", "quick"], cwd=ROOT, capture_output=True, text=True)
            viol = [l for l in pr.stdout.splitlines() if l.startswith("violated obligation") or l.startswith("VIOLATION")]
            out[p] = dict(rc=pr.returncode, seconds=round(time.time() - t0, 1), violated=[l for l in viol if l.startswith("violated")][:6])
            print(i, p, "rc=%d" % pr.returncode, "%.0fs" % (time.time() - t0), "; ".join(v.replace("violated obligation: ", "") for v in out[p]["violated"][:4]))
            if pr.returncode not in (0, 1):
                print(pr.stdout[-1500:], pr.stderr[-1500:])
        meta["detected_by"] = {p: v for p, v in out.items()}
        json.dump(meta, open(os.path.join(d, "meta.json"), "w"), indent=1)
    finally:
        subprocess.run(["git", "-C", "/repo", "checkout", "--", "."], check=True)
