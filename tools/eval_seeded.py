"""Run the quick check of each kept seeded change against a scratch copy of /repo with the change applied
(VERIF_REPO=<copy>, VERIF_OUT=<scratch>: nothing is written to /repo, /verif/evidence or /verif/replay).
usage: python3-vt tools/eval_seeded.py [-j N] [ids...]"""
import json, os, shutil, subprocess, sys, time
from concurrent.futures import ThreadPoolExecutor
ROOT = os.path.dirname(os.path.dirname(os.path.abspath(__file__)))
args = sys.argv[1:]
jobs = 4
if "-j" in args:
    jobs = int(args[args.index("-j") + 1]); del args[args.index("-j"):args.index("-j") + 2]
KIND = "seeded"
if "--dir" in args:
    KIND = args[args.index("--dir") + 1]; del args[args.index("--dir"):args.index("--dir") + 2]
ids = args or sorted(os.listdir(os.path.join(ROOT, KIND)))


def run(i):
    d = os.path.join(ROOT, KIND, i)
    meta = json.load(open(os.path.join(d, "meta.json")))
    props = meta.get("check_properties") or [meta["property"]]
    scratch = "/tmp/evs/%s" % i
    shutil.rmtree(scratch, ignore_errors=True)
    os.makedirs(scratch)
    repo = os.path.join(scratch, "repo")
    subprocess.run(["git", "clone", "-q", "/repo", repo], check=True)
    r = subprocess.run(["git", "-C", repo, "apply", os.path.join(d, "patch.diff")], capture_output=True, text=True)
    if r.returncode != 0:
        shutil.rmtree(scratch, ignore_errors=True)
        return i, "PATCH DOES NOT APPLY: " + r.stderr[:200]
    out, lines = {}, []
    try:
        for p in props:
            t0 = time.time()
            env = dict(os.environ, VERIF_REPO=repo, VERIF_OUT=os.path.join(scratch, "out"))
            pr = subprocess.run(["python3-vt", "-m", "pyvc.check", "--property", p, "--tier", "quick"], cwd=ROOT, capture_output=True, text=True, env=env)
            viol = [l.replace("violated obligation: ", "") for l in pr.stdout.splitlines() if l.startswith("violated obligation")]
            out[p] = dict(rc=pr.returncode, seconds=round(time.time() - t0, 1), violated=sorted(set(viol))[:6])
            nv = [l for l in pr.stdout.splitlines() if l.startswith("NOT-VERIFIED")]
            out[p]["not_verified"] = [l[:200] for l in nv][:4]
            lines.append("%s %s rc=%d %.0fs %s%s" % (i, p, pr.returncode, time.time() - t0, "; ".join(sorted(set(viol))[:4]), (" | NOT-VERIFIED x%d" % len(nv)) if nv else ""))
            if pr.returncode not in (0, 1):
                lines.append(pr.stdout[-800:] + pr.stderr[-800:])
        meta["detected_by"] = out
        json.dump(meta, open(os.path.join(d, "meta.json"), "w"), indent=1)
    finally:
        shutil.rmtree(scratch, ignore_errors=True)
    return i, "\n".join(lines)


with ThreadPoolExecutor(jobs) as ex:
    for i, text in ex.map(run, ids):
        print(text, flush=True)
