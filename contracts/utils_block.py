"""U8: BlockBase.match - scope discipline, restore protocol, end/name/label checks."""
from pyvc.contracts import contract, spec

U = "fparser.two.utils:"

spec("given", "s:str?", "bool", "s is not None and s != ''", macro=True)

RESTORE_INV = {
    "restoring": "cons(content[:len(content) - {k}]) + view == old(view)",
    "scope": "scope_stack == old(scope_stack) and REP(SYMBOL_TABLES)",
    "tables": "dict_subset(SYMBOL_TABLES._symbol_tables, old(SYMBOL_TABLES._symbol_tables))",
}

def restore_inv(k):
    return {n: e.format(k=k) for n, e in RESTORE_INV.items()}

contract(U + "BlockBase.match",
    merge=True,
    str_axioms=["case_idempotent"],
    types=dict(startcls="cls?", subclasses="list[cls]", endcls="cls?", reader="FortranReaderBase",
               match_labels="bool", match_names="bool", match_name_classes="any",
               enable_do_label_construct_hook="bool", enable_if_construct_hook="bool",
               enable_where_construct_hook="bool", strict_order="bool", strict_match_names="bool"),
    returns="tuple[list[ref:Base]]?",
    not_assumed=["tables.nomatch.nothing_lost"],
    clause_props={"post.tables": ["C09", "C16"], "raises.*!StopIteration.tables": ["C09", "C16"], "post.scope": ["C09", "C16"], "raises.*!StopIteration.scope": ["C09", "C16"],
                  "post.end.": ["C08"], "post.names.": ["C08"], "post.labels.": ["C08"],
                  "post.restore": ["C08", "C11", "C12", "C14", "C20"], "post.order": ["C11", "C12", "C10", "C14"]},
    bind={"SYMBOL_TABLES": "ref:SymbolTables", "di.C99Preprocessor.match_cpp_directive": "cls"},
    locals=dict(content="list[ref:Base]", classes="list[cls]", comments="list[cls]"),
    requires={
        "rep": "REP(SYMBOL_TABLES)",
        "checks_need_start": "implies(match_labels or match_names, startcls is not None)",
        "hook_needs_start": "implies(enable_do_label_construct_hook, startcls is not None and labelled_do_class(startcls))",
        "labelled_do_not_scoping": "implies(startcls is not None and (startcls == Label_Do_Stmt or startcls == Label_Do_Stmt_2008), never_scoping(startcls))",
    },
    modifies=["view", "scope_stack", "*.fifo_item", "*.linecount", "*.filo_line", "*.source_lines", "*.isclosed",
              "*._children", "SYMBOL_TABLES._symbol_tables", "SYMBOL_TABLES._current_scope",
              "*._name", "*._data_symbols", "*._modules", "*._parent", "*._node", "*._checking_enabled", "*.message"],
    calls={
        "startcls": "proto:stmt_call", "cls": "proto:rule_call",
        "DynamicImport.add_comments_includes_directives": "fparser.two.Fortran2003:add_comments_includes_directives",
        "*.restore_reader": "proto:restore_reader",
        "*.get_scope_name": "proto:get_scope_name", "*.get_start_label": "pure:any", "*.get_end_label": "pure:any",
        "end_stmt.item.reader.error": "noraise:none",
        "*.get_start_name": "pure:str?", "*.get_end_name": "pure:str?", "*.get_name": "pure:any", "*.get_type": "pure:str",
    },
    ensures={
        "scope.ret": "scope_stack == old(scope_stack)",
        "rep": "REP(SYMBOL_TABLES)",
        "restore": "implies(result is None, view == old(view))",
        "order": "implies(result is not None, old(view) == cons(result[0]) + view)",
        "tables.nomatch.nothing_left": "implies(result is None, dict_subset(SYMBOL_TABLES._symbol_tables, old(SYMBOL_TABLES._symbol_tables)))",
        "tables.nomatch.nothing_lost": "implies(result is None, dict_subset(old(SYMBOL_TABLES._symbol_tables), SYMBOL_TABLES._symbol_tables))",
    },
    ensures_local={
        # C08 (U8c/d/e): a block with an end class is returned only if its END was found, with agreeing names and labels
        "end.required@ret4": "implies(result is not None and endcls is not None, found_end and had_match)",
        # stated over the nodes of the block (the opening statement and the END statement found), not over local copies
        "names.agree@ret4": "implies(result is not None and found_end and match_names, "
                       "not (given(content[len(content) - 1].get_end_name()) and not given(content[start_idx].get_start_name())) "
                       "and not (given(content[start_idx].get_start_name()) and given(content[len(content) - 1].get_end_name()) "
                       "and nonnull(content[start_idx].get_start_name()).lower() != nonnull(content[len(content) - 1].get_end_name()).lower()) "
                       "and not (strict_match_names and given(content[start_idx].get_start_name()) and not given(content[len(content) - 1].get_end_name())))",
        "labels.agree@ret4": "implies(result is not None and found_end and match_labels, "
                        "content[start_idx].get_start_label() == content[len(content) - 1].get_end_label())",
        "something_matched@ret4": "implies(result is not None, len(content) > 0 and result[0] == content)",
    },
    # reaching the end of the input is handled inside (get_item returns None): StopIteration never comes out, so the
    # loop of Program.match cannot mistake a failure below for the end of the source
    raises={"*!StopIteration": {
        "scope.exc": "scope_stack == old(scope_stack)",
        "rep": "REP(SYMBOL_TABLES)",
        "tables.exc.nothing_left": "dict_subset(SYMBOL_TABLES._symbol_tables, old(SYMBOL_TABLES._symbol_tables))",
    }},
    loops={
        0: dict(invariant=restore_inv("_k0"), types={"obj": "ref:Base?"}, modifies=["view", "*.fifo_item"]),
        1: dict(invariant={
            "accounted": "old(view) == cons(content) + view",
            "counters": "0 <= i and not found_end",
            "start_idx_ok": "implies(startcls is not None, 0 <= start_idx and start_idx < len(content))",
            "rep": "REP(SYMBOL_TABLES)",
            "scope_closed": "implies(table_name is None, scope_stack == old(scope_stack))",
            "scope_open": "implies(table_name is not None, table_name != '' and len(scope_stack) == len(old(scope_stack)) + 1 and scope_stack[:len(old(scope_stack))] == old(scope_stack))",
            "tables_same": "implies(table_name is None, SYMBOL_TABLES._symbol_tables == old(SYMBOL_TABLES._symbol_tables))",
            "tables_nested_same": "implies(table_name is not None and len(old(scope_stack)) > 0, SYMBOL_TABLES._symbol_tables == old(SYMBOL_TABLES._symbol_tables))",
            "tables_one_more": "implies(table_name is not None and len(old(scope_stack)) == 0, table_name.lower() in SYMBOL_TABLES._symbol_tables and dict_same_except(SYMBOL_TABLES._symbol_tables, old(SYMBOL_TABLES._symbol_tables), table_name.lower()))",
            "abort_class_fact": "implies(startcls is not None and (startcls == Label_Do_Stmt or startcls == Label_Do_Stmt_2008), table_name is None)",
            "lines_read": "implies(len(content) > 0, len(reader.source_lines) > 0 and 0 <= reader.linecount and reader.linecount + len(reader.filo_line) == len(reader.source_lines))",
        }, types={"obj": "ref:Base?", "start_label": "any", "end_label": "any", "start_name": "str?", "end_name": "str?", "cls": "cls"}),
        2: dict(invariant=restore_inv("_k2"), types={"obj": "ref:Base?"}, modifies=["view", "*.fifo_item"]),
        3: dict(invariant=restore_inv("_k3"), types={"obj": "ref:Base?"}, modifies=["view", "*.fifo_item"]),
    },
    serves=["C08", "C09", "C11", "C12", "C14", "C16", "C20"],
)


F = "fparser.two.Fortran2003:"

contract(F + "Main_Program0.match",
    str_axioms=["case_idempotent"],
    types=dict(reader="FortranReaderBase"),
    returns="tuple[list[ref:Base]]?",
    not_assumed=["tables.nomatch.nothing_lost"],
    bind={"SYMBOL_TABLES": "ref:SymbolTables"},
    requires={"rep": "REP(SYMBOL_TABLES)"},
    modifies=["view", "scope_stack", "*.fifo_item", "*.linecount", "*.filo_line", "*.source_lines", "*.isclosed",
              "*._children", "SYMBOL_TABLES._symbol_tables", "SYMBOL_TABLES._current_scope",
              "*._name", "*._data_symbols", "*._modules", "*._parent", "*._node", "*._checking_enabled", "*.message"],
    ensures={
        "scope.ret": "scope_stack == old(scope_stack)",
        "rep": "REP(SYMBOL_TABLES)",
        "restore": "implies(result is None, view == old(view))",
        "tables.nomatch.nothing_left": "implies(result is None, dict_subset(SYMBOL_TABLES._symbol_tables, old(SYMBOL_TABLES._symbol_tables)))",
        "tables.nomatch.nothing_lost": "implies(result is None, dict_subset(old(SYMBOL_TABLES._symbol_tables), SYMBOL_TABLES._symbol_tables))",
    },
    raises={"*": {
        "scope.exc": "scope_stack == old(scope_stack)",
        "tables.exc.nothing_left": "dict_subset(SYMBOL_TABLES._symbol_tables, old(SYMBOL_TABLES._symbol_tables))",
    }},
    serves=["C09", "C16"],
)


contract(F + "Program.match",
    types=dict(reader="FortranReaderBase"),
    returns="tuple[list[ref:Base]]?",
    bind={"SYMBOL_TABLES": "ref:SymbolTables"},
    locals=dict(content="list[ref:Base]"),
    requires={"rep": "REP(SYMBOL_TABLES)"},
    modifies=["view", "scope_stack", "*.fifo_item", "*.linecount", "*.filo_line", "*.source_lines", "*.isclosed",
              "*._children", "SYMBOL_TABLES._symbol_tables", "SYMBOL_TABLES._current_scope",
              "*._name", "*._data_symbols", "*._modules", "*._parent", "*._node", "*._checking_enabled", "*.message"],
    calls={"add_comments_includes_directives": "fparser.two.Fortran2003:add_comments_includes_directives", "Program_Unit": "proto:rule_call",
           "reader.next": "proto:reader_next", "reader.put_item": "proto:put_item", "BlockBase.match": "fparser.two.utils:BlockBase.match"},
    ensures={
        # C02/C08: a tree is returned only when every item of the input is accounted for by a node of the tree
        "covers_all_items": "implies(result is not None, old(view) == cons(result[0]) + view)",
        "input_exhausted": "implies(result is not None, view == [])",
        "scope.ret": "scope_stack == old(scope_stack)",
    },
    # C07: between the last failed alternative and the failure that Program.__new__ turns into the FortranSyntaxError the
    # reader is not advanced: the message is built from reader.linecount / reader.source_lines as that attempt left them
    snapshots={"attempt": "result = BlockBase.match"},
    ensures_local={
        "failure_leaves_the_reader_where_the_last_attempt_ended.linecount@ret0": "reader.linecount == at('attempt', reader.linecount)",
        "failure_leaves_the_reader_where_the_last_attempt_ended.lines@ret0": "reader.source_lines == at('attempt', reader.source_lines)",
        "failure_leaves_the_reader_where_the_last_attempt_ended.items@ret0": "view == at('attempt', view)",
    },
    clause_props={"failure_leaves_the_reader_where_the_last_attempt_ended": ["C07"]},
    raises={"*": {"scope.exc": "scope_stack == old(scope_stack)"}},
    loops={0: dict(invariant={"accounted": "old(view) == cons(content) + view",
                              "scope": "scope_stack == old(scope_stack) and REP(SYMBOL_TABLES)"},
                   types={"obj": "ref:Base?", "next_line": "ref"})},
    serves=["C02", "C07", "C08", "C11"],
)
