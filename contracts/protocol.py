"""G3: protocol contracts used at calls through class-valued variables and at
the generic node methods.  These are *trusted* here (they are what the rule
classes promise each other); they are proved for the implementations that all
reader-level rules go through (Base.__new__ statement branch, Comment.__new__,
match_cpp_directive, BlockBase.match/restore_reader) by their own contracts."""
from pyvc.contracts import contract, spec

# the items a node took from the reader, in delivery order (uninterpreted)
spec("consumed", "o:ref", "list[ref]", None)

contract("proto:rule_call", trusted=True,
    types=dict(cls="cls", reader="FortranReaderBase"), returns="ref:Base?",
    modifies=["view", "*.fifo_item", "*.linecount", "*.filo_line", "*.source_lines", "*.isclosed", "*._children"],
    ensures={
        "no_match_restores": "implies(result is None, view == old(view))",
        "match_consumes_prefix": "implies(result is not None, old(view) == consumed(result) + view and len(consumed(result)) > 0)",
        "reader_lines_kept": "implies(old(len(reader.source_lines) > 0 and 0 <= reader.linecount and reader.linecount + len(reader.filo_line) == len(reader.source_lines)), len(reader.source_lines) > 0 and 0 <= reader.linecount and reader.linecount + len(reader.filo_line) == len(reader.source_lines))",
        "result_is_new_node": "implies(result is not None, not was_allocated(result))",
        "lines_read": "implies(result is not None, len(reader.source_lines) > 0 and 0 <= reader.linecount and reader.linecount + len(reader.filo_line) == len(reader.source_lines))",
        "reader_lines_consistent": "implies(old(0 <= reader.linecount and reader.linecount + len(reader.filo_line) == len(reader.source_lines)), 0 <= reader.linecount and reader.linecount + len(reader.filo_line) == len(reader.source_lines))",
    },
    # any exception may come out of a rule; the scope stack and the table registry are as before the call;
    # a rule that reports "no match" by raising NoMatchError has put back what it took
    raises={"NoMatchError": {"restores": "view == old(view)", "reader_lines_consistent": "implies(old(0 <= reader.linecount and reader.linecount + len(reader.filo_line) == len(reader.source_lines)), 0 <= reader.linecount and reader.linecount + len(reader.filo_line) == len(reader.source_lines))", "reader_lines_kept": "implies(old(len(reader.source_lines) > 0 and 0 <= reader.linecount and reader.linecount + len(reader.filo_line) == len(reader.source_lines)), len(reader.source_lines) > 0 and 0 <= reader.linecount and reader.linecount + len(reader.filo_line) == len(reader.source_lines))"}, "*!NoMatchError!StopIteration": {}},
    note="rule-call protocol G3 (scope_stack and SYMBOL_TABLES._symbol_tables are not in the modifies clause: unchanged on every exit)")

contract("proto:restore_reader", trusted=True,
    types=dict(self="ref:Base", reader="FortranReaderBase"),
    modifies=["view", "*.fifo_item"],
    ensures={"put_back": "view == consumed(self) + old(view)"},
    raises=[],
    note="node.restore_reader(reader) puts the node's items back in front, in order")

# class fact (uninterpreted here, checked on the real classes by checks/enum_block_table.py):
# no instance a rule call of this class can return is a scoping region
spec("never_scoping", "c:cls", "bool", None)
# class fact: every instance a rule call of this class returns has get_start_label (labelled DO statements)
spec("labelled_do_class", "c:cls", "bool", None)

# concatenation of the items consumed by a list of nodes (right recursion: one unfolding per append)
spec("cons", "xs:list[ref]", "list[ref]",
     "[] if len(xs) == 0 else cons(xs[:len(xs) - 1]) + consumed(xs[len(xs) - 1])", rec=True)

contract("proto:stmt_call", trusted=True,
    types=dict(cls="cls", reader="FortranReaderBase"), returns="ref:Base?",
    modifies=["view", "*.fifo_item", "*.linecount", "*.filo_line", "*.source_lines", "*.isclosed"],
    ensures={
        "no_match_restores": "implies(result is None, view == old(view))",
        "match_consumes_prefix": "implies(result is not None, old(view) == consumed(result) + view and len(consumed(result)) > 0)",
        "reader_lines_kept": "implies(old(len(reader.source_lines) > 0 and 0 <= reader.linecount and reader.linecount + len(reader.filo_line) == len(reader.source_lines)), len(reader.source_lines) > 0 and 0 <= reader.linecount and reader.linecount + len(reader.filo_line) == len(reader.source_lines))",
        "result_is_new_node": "implies(result is not None, not was_allocated(result))",
        "lines_read": "implies(result is not None, len(reader.source_lines) > 0 and 0 <= reader.linecount and reader.linecount + len(reader.filo_line) == len(reader.source_lines))",
        "non_scoping_class": "implies(result is not None and never_scoping(cls), not typeof_is(result, 'ScopingRegionMixin'))",
        "labelled_do_instances": "implies(result is not None and labelled_do_class(cls), has_attr(result, 'get_start_label'))",
    },
    raises={"NoMatchError": {"restores": "view == old(view)", "reader_lines_kept": "implies(old(len(reader.source_lines) > 0 and 0 <= reader.linecount and reader.linecount + len(reader.filo_line) == len(reader.source_lines)), len(reader.source_lines) > 0 and 0 <= reader.linecount and reader.linecount + len(reader.filo_line) == len(reader.source_lines))"}, "*!NoMatchError!StopIteration": {}},
    note="statement-level rule call (Base.__new__ statement branch, proved as Base.__new__@stmt): never touches scopes or tables")

# (proto:add_comments was replaced by the verified contract of add_comments_includes_directives, contracts/comments_directives.py)

contract("proto:get_scope_name", trusted=True, pure=True,
    types=dict(self="ref:Base"), returns="str",
    ensures={"non_empty": "result != ''"}, raises=[],
    note="[A] a scoping statement has a non-empty name (get_name().string of a matched Name)")

contract("proto:reader_next", trusted=True,
    types=dict(self="FortranReaderBase", ignore_comments="bool?"), returns="ref", defaults=dict(ignore_comments=None),
    modifies=["view", "*.fifo_item", "*.linecount", "*.filo_line", "*.source_lines", "*.isclosed"],
    ensures={"delivers_head": "old(view) == [result] + view"},
    raises={"StopIteration": {"exhausted": "old(view) == [] and view == []"}},
    note="reader.next() over the ghost view G1")

contract("proto:stmt_call@dynamic", trusted=True,
    types=dict(reader="FortranReaderBase"), returns="ref:Base?",
    modifies=["view", "*.fifo_item", "*.linecount", "*.filo_line", "*.source_lines", "*.isclosed"],
    ensures={
        "no_match_restores": "implies(result is None, view == old(view))",
        "match_consumes_prefix": "implies(result is not None, old(view) == consumed(result) + view and len(consumed(result)) > 0)",
        "result_is_new_node": "implies(result is not None, not was_allocated(result))",
    },
    raises={"*!NoMatchError!StopIteration": {}},
    note="a statement rule looked up by name and called on the reader (Base.__new__ statement branch, proved as Base.__new__@stmt: "
         "NoMatchError of the string rule is caught there and reported as None)")
