"""G3: protocol contracts used at calls through class-valued variables and at
the generic node methods.  These are *trusted* here (they are what the rule
classes promise each other); they are proved for the implementations that all
reader-level rules go through (Base.__new__ statement branch, Comment.__new__,
match_cpp_directive, BlockBase.match/restore_reader) by their own contracts."""
from pyvc.contracts import contract, spec

# the items a node took from the reader, in delivery order (uninterpreted)
spec("consumed", "o:ref", "list[ref]", None)

contract("proto:rule_call", trusted=True,
    types=dict(cls="cls", reader="FortranReaderBase"), returns="ref:Base?",
    modifies=["view", "*.fifo_item", "*.linecount", "*.filo_line", "*.source_lines", "*.isclosed", "*._children"],
    ensures={
        "no_match_restores": "implies(result is None, view == old(view))",
        "match_consumes_prefix": "implies(result is not None, old(view) == consumed(result) + view and len(consumed(result)) > 0)",
        "result_is_new_node": "implies(result is not None, not was_allocated(result))",
    },
    # any exception may come out of a rule; the scope stack and the table registry are as before the call
    raises={"*": {}},
    note="rule-call protocol G3 (scope_stack and SYMBOL_TABLES._symbol_tables are not in the modifies clause: unchanged on every exit)")

contract("proto:restore_reader", trusted=True,
    types=dict(self="ref:Base", reader="FortranReaderBase"),
    modifies=["view", "*.fifo_item"],
    ensures={"put_back": "view == consumed(self) + old(view)"},
    raises=[],
    note="node.restore_reader(reader) puts the node's items back in front, in order")
