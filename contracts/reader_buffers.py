"""Contracts for the line/item buffers of FortranReaderBase (R7, R9, G2)."""
from pyvc.contracts import contract, spec, ghost

M = "fparser.common.readfortran:"

ghost("raw_lines", "int")    # number of physical lines drawn from the underlying source so far
ghost("last_raw", "str")      # the most recent physical line handed out by the underlying source

# G2: lines taken from the source and not put back
spec("LC", "r:FortranReaderBase", "int", "r.linecount + len(r.filo_line) - len(r.source_lines)", macro=True)
# what get_single_line stores for a raw physical line
spec("normalised", "raw:str", "str", "raw.expandtabs().replace('\\xa0', ' ').rstrip()", macro=True)

contract("ext:source_next", trusted=True,
    types=dict(source="any"), returns="str",
    modifies=["last_raw", "raw_lines"],
    ensures={"recorded": "last_raw == result", "counted": "raw_lines == old(raw_lines) + 1"},
    raises={"StopIteration": {"nothing_drawn": "raw_lines == old(raw_lines)"}},
    note="next() on the underlying text source: yields a physical line or raises StopIteration")

contract(M + "FortranReaderBase.put_single_line",
    types=dict(self="FortranReaderBase", line="str"),
    modifies=["self.filo_line", "self.linecount"],
    ensures={
        "pushed": "self.filo_line == old(self.filo_line) + [line]",
        "uncounted": "self.linecount == old(self.linecount) - 1",
        "LC_kept": "LC(self) == old(LC(self))",
    },
    raises=[],
    serves=["C07", "C12"],
)

contract(M + "FortranReaderBase.get_single_line",
    types=dict(self="FortranReaderBase", ignore_empty="bool", ignore_comments="bool?"),
    returns="str?",
    modifies=["self.filo_line", "self.linecount", "self.isclosed", "self.source_lines", "last_raw", "raw_lines"],
    calls={"next": "ext:source_next", "self.close_source": "ignore",
           "_is_fix_comment": M + "_is_fix_comment"},
    ensures={
        "LC_kept": "LC(self) == old(LC(self))",
        "from_filo": "implies(len(old(self.filo_line)) > 0, result is not None and result == old(self.filo_line)[len(old(self.filo_line)) - 1] "
                     "and self.filo_line == old(self.filo_line)[:len(old(self.filo_line)) - 1] and self.linecount == old(self.linecount) + 1 "
                     "and self.source_lines == old(self.source_lines))",
        "filo_untouched_when_empty": "implies(len(old(self.filo_line)) == 0, self.filo_line == old(self.filo_line))",
        "none_means_closed": "implies(result is None, self.isclosed)",
        "cache_grows": "len(self.source_lines) >= len(old(self.source_lines)) and self.source_lines[:len(old(self.source_lines))] == old(self.source_lines)",
        "fresh_line_is_cached_last": "implies(result is not None and len(old(self.filo_line)) == 0, "
                                     "len(self.source_lines) > len(old(self.source_lines)) and result == self.source_lines[len(self.source_lines) - 1] "
                                     "and self.linecount > old(self.linecount))",
        # C07: every physical line drawn from the source is cached (and thereby counted, LC), whether or not it is handed out
        "every_physical_line_is_cached": "len(self.source_lines) - len(old(self.source_lines)) == raw_lines - old(raw_lines)",
        "fresh_line_normalised_then_sentinels": "implies(result is not None and len(old(self.filo_line)) == 0, result == "
            "(FortranReaderBase.replace_omp_sentinels(normalised(last_raw), self._re_omp_sentinel)[0] "
            " if (self._include_omp_conditional_lines and not self._format._is_free) else normalised(last_raw)))",
    },
    raises=[],
    serves=["C05", "C06", "C07", "C12", "C15"],
)

contract(M + "FortranReaderBase.get_next_line",
    types=dict(self="FortranReaderBase", ignore_empty="bool", ignore_comments="bool?"),
    returns="str?",
    modifies=["self.filo_line", "self.linecount", "self.isclosed", "self.source_lines", "last_raw", "raw_lines"],
    ensures={
        "LC_kept": "LC(self) == old(LC(self))",
        "peek_leaves_count": "implies(len(old(self.filo_line)) > 0 or result is None or True, self.linecount <= old(self.linecount) + len(self.source_lines) - len(old(self.source_lines)))",
        "peeked_is_on_top": "implies(result is not None, len(self.filo_line) > 0 and self.filo_line[len(self.filo_line) - 1] == result)",
        "filo_only_grows_by_one": "implies(result is not None and len(old(self.filo_line)) > 0, self.filo_line == old(self.filo_line) and self.linecount == old(self.linecount))",
    },
    raises=[],
    serves=["C07", "C12"],
)

# the reader that currently owns the item queue: the innermost active INCLUDE reader
spec("innermost", "r:FortranReaderBase", "FortranReaderBase",
     "r if r.reader is None else innermost(r.reader)", rec=True, heap=["reader"])

contract(M + "FortranReaderBase.put_item",
    types=dict(self="FortranReaderBase", item="ref"),
    modifies=["*.fifo_item"],
    ensures={
        "pushed_front_of_innermost": "innermost(self).fifo_item == [item] + old(innermost(self).fifo_item)",
        "only_innermost_queue_changes": "unchanged_except('fifo_item', innermost(self))",
        "own_queue_when_not_including": "implies(self.reader is None, self.fifo_item == [item] + old(self.fifo_item))",
    },
    raises=[],
    serves=["C07", "C11", "C12", "C13"],
)

contract(M + "Line.__init__",
    types=dict(self="Line", line="str", linenospan="tuple[int,int]", label="int?", name="str?", reader="FortranReaderBase"),
    modifies=["self.line", "self.span", "self.label", "self.name", "self.reader", "self.strline", "self.is_f2py_directive", "self.parse_cache"],
    calls={"isinstance": "pure:bool"},
    ensures={
        "stripped_nonempty": "self.line == line.strip() and self.line != ''",
        "span_label_name": "self.span == linenospan and self.label == label and self.name == name",
        "fresh_cache": "all_absent(self.parse_cache)",
    },
    raises={"FortranReaderError": {"empty": "line.strip() == ''"}, "AssertionError": {}},
    serves=["C09", "C10", "C12", "C20"],      # C10: an item starts with an empty parse cache - no node can come from another item
)

contract(M + "CppDirective.__init__",
    types=dict(self="CppDirective", line="str", linenospan="tuple[int,int]", reader="FortranReaderBase"),
    modifies=["self.line", "self.span", "self.label", "self.name", "self.reader", "self.strline", "self.is_f2py_directive", "self.parse_cache"],
    ensures={"text": "self.line == line.strip() and self.line != ''", "span": "self.span == linenospan", "no_label_name": "self.label is None and self.name is None"},
    raises={"FortranReaderError": {"empty": "line.strip() == ''"}, "AssertionError": {}},
    serves=["C14"],
)

contract(M + "FortranReaderBase.cpp_directive_item",
    types=dict(self="FortranReaderBase", line="str", startlineno="int", endlineno="int"), returns="ref:CppDirective",
    modifies=[],
    ensures={"item": "result.line == line.strip() and result.span == (startlineno, endlineno) and not was_allocated(result)"},
    raises={"FortranReaderError": {"empty": "line.strip() == ''"}, "AssertionError": {}},
    serves=["C14"],
)

# the reader's cpp branch: precondition "the next physical line is a directive" is expressed on the stacked line
contract(M + "FortranReaderBase.get_source_item@cpp",
    types=dict(self="FortranReaderBase"), returns="ref:CppDirective?",
    requires={"directive_on_top": "len(self.filo_line) > 0 and self.filo_line[len(self.filo_line) - 1].lstrip().startswith('#') "
                                  "and self.filo_line[len(self.filo_line) - 1] != '' and not (self._format._is_free and self._format._is_strict)",
              "inv": "INV_LC(self)"},
    modifies=["self.filo_line", "self.linecount", "self.isclosed", "self.source_lines", "last_raw", "raw_lines"],
    ensures={
        "is_directive_item": "result is not None and typeof_is(result, 'CppDirective')",
        "span_is_lines_taken": "result.span[0] == old(self.linecount) + 1 and result.span[1] == self.linecount and result.span[1] >= result.span[0]",
        "inv": "INV_LC(self)",
        "single_line_span": "implies(not old(self.filo_line)[len(old(self.filo_line)) - 1].rstrip().endswith('\\\\'), result.span[1] == result.span[0])",
    },
    raises={"FortranReaderError": {}, "AssertionError": {}},
    loops={0: dict(invariant={"count": "self.linecount >= startlineno and startlineno == old(self.linecount) + 1 and INV_LC(self)",
                              "not_entered": "implies(len(lines) == 0, self.linecount == startlineno and line == old(self.filo_line)[len(old(self.filo_line)) - 1])",
                              "entered_only_if_continued": "implies(len(lines) > 0, old(self.filo_line)[len(old(self.filo_line)) - 1].rstrip().endswith('\\\\'))"},
                   types={"line": "str?"})},
    locals=dict(lines="list[str]"),
    serves=["C12", "C14"],
)

contract(M + "Comment.__init__",
    types=dict(self="Comment", comment="str", linenospan="tuple[int,int]", reader="FortranReaderBase", inline="bool"),
    modifies=["self.comment", "self.span", "self.reader", "self.line", "self.inline"],
    ensures={"stored": "self.comment == comment and self.line == comment and self.span == linenospan and self.inline == inline"},
    raises=[], serves=["C11"],
)

contract(M + "FortranReaderBase.comment_item",
    types=dict(self="FortranReaderBase", comment="str", startlineno="int", endlineno="int", inline_comment="bool"), returns="ref:Comment",
    modifies=[],
    ensures={"item": "result.comment == comment and result.span == (startlineno, endlineno) and result.inline == inline_comment and not was_allocated(result)"},
    raises=[], serves=["C11"],
)

contract(M + "FortranReaderBase.handle_inline_comment",
    types=dict(self="FortranReaderBase", line="str", lineno="int", quotechar="str?", buffer_comments_to_fifo="bool"),
    returns="tuple[str,str?,bool]",
    locals=dict(noncomment_items="list[str]", items="list[tstr]"),
    requires={"quote_is_quote": "quotechar is None or quotechar == \"'\" or quotechar == '\"'",
              "f2py_off": "not self._format._f2py_enabled"},
    modifies=["self.fifo_item", "self.f2py_comment_lines"],
    ensures={
        "no_comment_line_unchanged": "implies(not result[2], result[0] == line)",
        "inside_open_literal_nothing_is_cut": "implies(quotechar is not None and nq(line, quotechar, 0) == -1, "
                                              "result[0] == line and not result[2] and result[1] == quotechar)",
        "bang_inside_open_literal_is_kept": "implies(quotechar is not None and nq(line, quotechar, 0) >= 0, "
                                            "result[0][:nq(line, quotechar, 0) + 1] == line[:nq(line, quotechar, 0) + 1])",
        "queue_only_grows_by_the_comment": "implies(result[2] and buffer_comments_to_fifo, len(self.fifo_item) == len(old(self.fifo_item)) + 1 "
                                           "and list(self.fifo_item)[:len(old(self.fifo_item))] == list(old(self.fifo_item)))",
        "queue_untouched_otherwise": "implies(not result[2] or not buffer_comments_to_fifo, list(self.fifo_item) == list(old(self.fifo_item)))",
        # a comment runs to the end of the line: quotation marks inside it never open a literal that continues
        "comment_ends_any_literal": "implies(result[2], result[1] is None)",
        "quote_state_is_a_quote": "result[1] is None or result[1] == \"'\" or result[1] == '\"'",
    },
    raises=[],
    # undecided by all three solvers in every stage (nested quote positions inside recursive nq); decided on the bounded domain
    bounded_clauses=["bang_inside_open_literal_is_kept@ret3"],
    receiver="(lambda r: (r.set_format(FortranFormat(True, False)), r)[1])(FortranStringReader('x = 1\\n', ignore_comments=False))",
    domain=dict(line="strings(\"a'\\\"! \", N)", lineno="[1]", quotechar="[None, \"'\", '\"']", buffer_comments_to_fifo="[True, False]",
                _size=dict(quick=6, thorough=8)),
    hints={"no_comment_line_unchanged": ["joined"], "inside_open_literal_nothing_is_cut": ["joined", "quote_state", "no_comment_yet"],
           "bang_inside_open_literal_is_kept": ["joined", "first_kept"]},
    loops={0: dict(seq="its", bind={"nqc0": "newquotechar"}, invariant={
        "joined": "items == its and ''.join(noncomment_items) == ''.join(its[:_k0]) and ''.join(its) == line",
        "no_comment_yet": "commentline is None",
        "quote_state": "newquotechar == nqc0",
        "first_kept": "implies(quotechar is not None and nq(line, quotechar, 0) >= 0 and _k0 >= 1, "
                      "len(''.join(noncomment_items)) >= len(its[0]) and ''.join(noncomment_items)[:len(its[0])] == its[0])",
        "queue": "self.fifo_item == old(self.fifo_item)",
        }, types={"commentline": "str?", "newquotechar": "str?", "j": "int"})},
    serves=["C04", "C05", "C06", "C11", "C12"],
)
