"""F3/F4: the helper that collects leading comment / include / directive items (C11, C14, C12).

add_comments_includes_directives and match_comment_or_include are verified against the rule-call protocol
(ghost `view` = the items the reader will still deliver); what a single item rule accepts is abstracted by the
uninterpreted predicate accepts(rule, view)."""
from pyvc.contracts import contract, spec

F = "fparser.two.Fortran2003:"
spec("accepts", "rule:str, v:list[ref]", "bool", None)      # rule `rule` matches at the head of the item stream v

LINES = ("len(reader.source_lines) > 0 and 0 <= reader.linecount and "
         "reader.linecount + len(reader.filo_line) == len(reader.source_lines)")
KEPT = "implies(old(%s), %s)" % (LINES, LINES)
READER = ["view", "*.fifo_item", "*.linecount", "*.filo_line", "*.source_lines", "*.isclosed"]


def item_rule(rule):
    return dict(trusted=True,
        types=dict(reader="FortranReaderBase"), returns="ref:Base?", modifies=READER,
        ensures={
            "decides": "(result is not None) == accepts('%s', old(view))" % rule,
            "no_match_restores": "implies(result is None, view == old(view))",
            "match_consumes_prefix": "implies(result is not None, old(view) == consumed(result) + view and len(consumed(result)) > 0)",
            "result_is_new_node": "implies(result is not None, not was_allocated(result))",
            "reader_lines_kept": KEPT,
            "lines_read": "implies(result is not None, %s)" % LINES,
        },
        raises={"*!StopIteration!NoMatchError": {}},
        note="%s(reader): rule-call protocol G3 for an item-level rule; acceptance is a function of the pending items" % rule)


for r in ("Directive", "Comment", "Include_Stmt"):
    contract("proto:item_rule@" + r, **item_rule(r))
contract("proto:match_cpp_directive", **dict(item_rule("cpp"), note="C99Preprocessor.match_cpp_directive(reader): a Cpp_* node for a "
         "leading CppDirective item, else None with the reader as before"))

spec("comment_or_include_next", "r:FortranReaderBase, v:list[ref]", "bool",
     "(r.process_directives and accepts('Directive', v)) or accepts('Comment', v) or accepts('Include_Stmt', v)", heap=["process_directives"])

contract(F + "match_comment_or_include",
    types=dict(reader="FortranReaderBase"), returns="ref:Base?", modifies=READER,
    calls={"Directive": "proto:item_rule@Directive", "Comment": "proto:item_rule@Comment", "Include_Stmt": "proto:item_rule@Include_Stmt"},
    ensures={
        "decides": "(result is not None) == comment_or_include_next(reader, old(view))",
        "no_match_restores": "implies(result is None, view == old(view))",
        "match_consumes_prefix": "implies(result is not None, old(view) == consumed(result) + view and len(consumed(result)) > 0)",
        "result_is_new_node": "implies(result is not None, not was_allocated(result))",
        "reader_lines_kept": KEPT,
        "lines_read": "implies(result is not None, %s)" % LINES,
    },
    raises={"*!StopIteration!NoMatchError": {}},
    serves=["C11", "C14"],
)

contract(F + "add_comments_includes_directives",
    types=dict(content="list[ref:Base]", reader="FortranReaderBase"), mutates=["content"], modifies=READER,
    calls={"match_comment_or_include": F + "match_comment_or_include", "match_cpp_directive": "proto:match_cpp_directive"},
    ensures={
        "appends_only": "len(content) >= len(old(content)) and content[:len(old(content))] == old(content)",
        "accounts_for_view": "cons(old(content)) + old(view) == cons(content) + view",
        # it stops only in front of an item that is neither a comment, an include line nor a directive - whatever
        # the order in which comments and directives alternate
        "takes_all_of_them": "not comment_or_include_next(reader, view) and not accepts('cpp', view)",
        "reader_lines_kept": KEPT,
        "lines_read": "implies(len(content) > len(old(content)), %s)" % LINES,
    },
    raises={"*!StopIteration!NoMatchError": {}},
    loops={0: dict(invariant={
        "prefix": "len(content) >= len(old(content)) and content[:len(old(content))] == old(content)",
        "accounts": "cons(old(content)) + old(view) == cons(content) + (consumed(nonnull(obj)) + view if obj is not None else view)",
        "pending": "implies(obj is None, not comment_or_include_next(reader, view) and not accepts('cpp', view))",
        "new": "implies(obj is not None, not was_allocated(nonnull(obj)))",
        "lines_kept": KEPT,
        "lines": "implies(obj is not None or len(content) > len(old(content)), %s)" % LINES,
    }, types={"obj": "ref:Base?"})},
    serves=["C11", "C12", "C14"],
)

# match_cpp_directive itself: the protocol side of proto:match_cpp_directive proved (what it *decides* stays the
# uninterpreted predicate accepts('cpp', view)).  Each Cpp_* class is a statement rule (G3 for statement rules is
# Base.__new__@stmt, proved); the peeked item is given back before any rule is tried and on every exit without a node.
contract("fparser.two.C99Preprocessor:match_cpp_directive",
    types=dict(reader="FortranReaderBase"), returns="ref:Base?", modifies=READER,
    calls={"reader.get_item": "proto:get_item", "reader.put_item": "proto:put_item",
           "getattr(sys.modules[__name__], cls)": "proto:stmt_call@dynamic", "isinstance": "pure:bool"},
    ensures={
        "no_match_restores": "implies(result is None, view == old(view))",
        "match_consumes_prefix": "implies(result is not None, old(view) == consumed(result) + view and len(consumed(result)) > 0)",
        "result_is_new_node": "implies(result is not None, not was_allocated(result))",
    },
    raises={"*!StopIteration!NoMatchError": {}},
    loops={0: dict(invariant={"nothing_taken_yet": "view == old(view)"}, types={"cls": "str", "obj": "ref:Base?"})},
    serves=["C14", "C12"],
    note="the peek (get_item / put_item) leaves the item stream as it was; the first Cpp_* rule that matches decides")
