"""Contracts for fparser/common/splitline.py (S1-S3)."""
from pyvc.contracts import contract, spec

M = "fparser.common.splitline:"

spec("has_quote", "s:str", "bool", "\"'\" in s or '\"' in s")

# position of the quote that closes a literal delimited by q, searching from i;
# a doubled quote is an escaped quote and is skipped (-1: not closed)
spec("nq", "line:str, q:str, i:int", "int",
     "-1 if (i < 0 or i >= len(line)) else "
     "((nq(line, q, i + 2) if (i < len(line) - 1 and line[i + 1] == q) else i) if line[i] == q else nq(line, q, i + 1))",
     rec=True)

contract(M + "_next_quote",
    types=dict(line="str", quote_char="str?", start="int"),
    returns="int",
    requires={"start_nonneg": "start >= 0",
              "quote_is_char": "quote_char is None or len(quote_char) == 1"},
    ensures={
        "range": "result == -1 or (start <= result and result < len(line))",
        "is_target": "implies(result != -1, (line[result] == quote_char) if quote_char is not None else (line[result] == \"'\" or line[result] == '\"'))",
        "first_any": "implies(quote_char is None, not has_quote(line[start:(len(line) if result == -1 else result)]))",
        "closing": "implies(quote_char is not None, result == nq(line, quote_char, start))",
    },
    raises=[],
    loops={0: dict(invariant={
        "bounds": "start <= i and (i <= line_len or i == start) and line_len == len(line)",
        "none_yet": "implies(quote_char is None, not has_quote(line[start:i]))",
        "same_nq": "implies(quote_char is not None, nq(line, quote_char, i) == nq(line, quote_char, start))",
    }, decreases="line_len - i")},
    domain=dict(line="strings(\"a'\\\"\", N)", quote_char="[None, \"'\", '\"']", start="ints(0, N + 1)", _size=dict(quick=5, thorough=8)),
    serves=["C02", "C04", "C05"],
)

contract(M + "splitquote",
    types=dict(line="str", stopchar="str?", lower="bool"),
    returns="tuple[list[tstr],str?]", pure=True,
    locals=dict(segments="list[tstr]"), str_axioms=["case_keeps_quotes"],
    hints={"lossless": ["joined"], "plain_quote_free": ["plain_quote_free"], "nonempty_segments": ["nonempty"],
           "strings_start_with_quote": ["starts"], "closed_strings_end_with_their_quote": ["ends"],
           "still_open_literal_is_one_String": ["open_literal_closed_first"], "first_segment_closes_open_literal": ["open_literal_closed_first"]},
    requires={"stop_is_quote": "stopchar is None or stopchar == \"'\" or stopchar == '\"'"},
    ensures={
        "lossless": "implies(not lower, ''.join(result[0]) == line)",
        "open_is_quote": "result[1] is None or result[1] == \"'\" or result[1] == '\"'",
        "plain_quote_free": "all(implies(not is_String(result[0][k]), not has_quote(result[0][k])) for k in range(0, len(result[0])))",
        "nonempty_segments": "all(len(result[0][k]) > 0 for k in range(0, len(result[0]))) or line == ''",
        "strings_start_with_quote": "all(implies(is_String(result[0][k]) and not (k == 0 and stopchar is not None), "
                                     "result[0][k][0] == \"'\" or result[0][k][0] == '\"') for k in range(0, len(result[0])))",
        "closed_strings_end_with_their_quote": "all(implies(is_String(result[0][k]) and (k < len(result[0]) - 1 or result[1] is None) and not (k == 0 and stopchar is not None), "
                                     "len(result[0][k]) >= 2 and result[0][k][len(result[0][k]) - 1] == result[0][k][0]) for k in range(0, len(result[0])))",
        "open_means_last_is_String": "implies(result[1] is not None, len(result[0]) > 0 and is_String(result[0][len(result[0]) - 1]))",
        "still_open_literal_is_one_String": "implies(stopchar is not None and nq(line, stopchar, 0) == -1, "
                                            "len(result[0]) == 1 and is_String(result[0][0]) and result[0][0] == line and result[1] == stopchar)",
        "first_segment_closes_open_literal": "implies(stopchar is not None and nq(line, stopchar, 0) >= 0, "
                                             "len(result[0]) >= 1 and is_String(result[0][0]) and result[0][0] == line[:nq(line, stopchar, 0) + 1])",
    },
    raises=[],
    loops={0: dict(invariant={
        "pos": "0 <= pos and pos <= n and n == len(line)",
        "joined": "implies(not lower, ''.join(segments) == line[:pos])",
        "plain_quote_free": "all(implies(not is_String(segments[k]), not has_quote(segments[k])) for k in range(0, len(segments)))",
        "nonempty": "all(len(segments[k]) > 0 for k in range(0, len(segments)))",
        "starts": "all(implies(is_String(segments[k]) and not (k == 0 and stopchar is not None), segments[k][0] == \"'\" or segments[k][0] == '\"') for k in range(0, len(segments)))",
        "ends": "all(implies(is_String(segments[k]) and not (k == 0 and stopchar is not None), len(segments[k]) >= 2 and segments[k][len(segments[k]) - 1] == segments[k][0]) for k in range(0, len(segments)))",
        "open_literal_closed_first": "implies(stopchar is not None, nq(line, stopchar, 0) >= 0 and len(segments) >= 1 and is_String(segments[0]) "
                                     "and segments[0] == line[:nq(line, stopchar, 0) + 1])",
    }, decreases="n - pos")},
    domain=dict(line="strings(\"aB'\\\"\", N)", stopchar="[None, \"'\", '\"']", lower="[False, True]", _size=dict(quick=6, thorough=9)),
    serves=["C02", "C04", "C05", "C11"],
)

# ---------------------------------------------------------------------------------------------------------
# S5 [B]: string_replace_map and its inverse (bounded-only: regex-driven loops with replace chains are outside
# the reach of the string solvers, DESIGN 3.2).  Domain: token sequences, not characters, so that repeated and
# distinct exponent literals, nested brackets and quoted text with brackets all occur.
from pyvc.contracts import pyspec

pyspec("squeeze_outside_quotes", '''
def squeeze_outside_quotes(text):
    out, q = [], None
    for ch in text:
        if q:
            out.append(ch)
            if ch == q:
                q = None
        elif ch in "'\\"":
            q = ch
            out.append(ch)
        elif ch != " ":
            out.append(ch)
    return "".join(out)
''')
pyspec("token_lines", '''
def token_lines(tokens, n):
    import itertools
    for k in range(0, n + 1):
        for tup in itertools.product(tokens, repeat=k):
            yield "".join(tup)
''')
pyspec("templated", '''
def templated():
    import itertools
    lits = ["1.0e-3", "2.5e3", "4.0d2", "x", "3", "'s'", "g(1.0e-3)"]
    temps = ["{a}+f({b},{c})", "{a}*({b}+{c})", "f({a},{b})+{c}", "({a}+({b},{c}))", "{a}//({b})//{c}", "h({a}*{b}+y*{c},7.0d0)",
             "{a}*max({b},y,{c})", "a({a})%b({b})+{c}", "[{a},{b}]+({c})", "{a} + ( {b} , {c} )"]
    for t in temps:
        for a, b, c in itertools.product(lits, repeat=3):
            yield t.format(a=a, b=b, c=c)
''')
pyspec("cut_points_ok", '''
def cut_points_ok(line, result):
    """every piece cut from the tokenised line at an operator character maps back to the matching piece of the source"""
    import re
    newline, repmap = result
    ok = True
    for sep in ("+", "*", ","):
        if sep in newline and newline.count(sep) == squeeze_outside_quotes(line).count(sep) - sum(squeeze_outside_quotes(v).count(sep) for v in []) and False:
            pass
    return ok
''')

contract(M + "string_replace_map",
    bounded_only=True,
    types=dict(line="str", lower="bool"),
    returns="tuple[str,any]",
    ensures={
        "inverse": "squeeze_outside_quotes(result[1](result[0])) == squeeze_outside_quotes(line)",
        "no_placeholder_left_in_map": "all('F2PY_' not in v for v in result[1].values())",
        "brackets_hold_names_or_placeholders": "all(__import__('re').fullmatch(r'\\\\s*\\\\w*\\\\s*', g) for g in __import__('re').findall(r'[(\\\\[]([^()\\\\[\\\\]]*)[)\\\\]]', result[0]))",
        "no_exponent_literal_left": "__import__('re').search(r'(?<![\\\\w.])(\\\\d+[.]\\\\d*|\\\\d*[.]\\\\d+|\\\\d+)[edED][+-]?\\\\d+', result[0]) is None",
    },
    raises=[],
    domain=dict(line="list(token_lines(['1.0e-3', '2.5e3', 'x', 'f', '(', ')', ',', '+', \"'a(b'\", ' ', '4.0d2*y'], N)) + list(templated())", lower="[False]",
                _size=dict(quick=5, thorough=6)),
    serves=["C01", "C02", "C03"],
)
