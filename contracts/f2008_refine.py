"""F17: the Fortran 2008 rules that extend a 2003 rule by delegation accept whatever the 2003 rule accepts,
with the 2003 result (C17: every valid 2003 program is accepted by the 2008 parser with the same tree)."""
from pyvc.contracts import contract, spec

# result of the 2003 rule's match on a text (a deterministic function of the text: the rule only reads its argument)
spec("m2003", "rule:str, s:str", "any", None)
spec("m2003_nomatch", "rule:str, s:str", "bool", None)      # the 2003 match raises NoMatchError

for rule in ("loop_control", "format_item", "proc_decl"):
    contract("proto:m2003@" + rule, trusted=True,
        types=dict(string="str"), returns="any", modifies=[],
        ensures={"is": "result == m2003('%s', string) and not m2003_nomatch('%s', string)" % (rule, rule)},
        raises={"NoMatchError": {"nomatch": "m2003_nomatch('%s', string)" % rule}},
        note="the overridden Fortran 2003 match of the same rule, as a function of the text")

P = "fparser.two.Fortran2008."
contract(P + "loop_control_r818:Loop_Control.match",
    types=dict(string="str"), returns="any",
    calls={"Loop_Control_2003.match": "proto:m2003@loop_control", "Forall_Header": "opaque:any"},
    ensures={"f2003_match_wins": "implies(not m2003_nomatch('loop_control', string) and m2003('loop_control', string), "
                                 "result == m2003('loop_control', string) + (None,))"},
    raises={"*": {"only_if_2003_does_not_match": "m2003_nomatch('loop_control', string) or not m2003('loop_control', string)"}},
    serves=["C17"])

contract(P + "format_item_r1003:Format_Item.match",
    types=dict(string="str"), returns="any",
    calls={"Format_Item_2003.match": "proto:m2003@format_item", "Format_Item_List": "opaque:any"},
    ensures={"f2003_match_wins": "implies(string != '' and not m2003_nomatch('format_item', string) and m2003('format_item', string), "
                                 "result == m2003('format_item', string))"},
    raises={"*": {"only_if_2003_does_not_match": "m2003_nomatch('format_item', string) or not m2003('format_item', string)"}},
    serves=["C17"])

contract(P + "proc_decl_r1214:Proc_Decl.match",
    types=dict(string="str"), returns="any",
    calls={"Proc_Decl_2003.match": "proto:m2003@proc_decl", "BinaryOpBase.match": "opaque:any"},
    ensures={"f2003_match_wins": "implies(string != '' and not m2003_nomatch('proc_decl', string) and m2003('proc_decl', string), "
                                 "result == m2003('proc_decl', string))"},
    raises={"*": {"only_if_2003_does_not_match": "m2003_nomatch('proc_decl', string) or not m2003('proc_decl', string)"}},
    serves=["C17"])
