"""R10: INCLUDE handling in FortranReaderBase.next (C13) and its exception discipline (C06/C12)."""
from pyvc.contracts import contract, spec, ghost

R = "fparser.common.readfortran:"


# the file the search loop settles on: the first directory of dirs (from position i) in which a file of that name exists,
# else the candidate in the last directory (the bare file name when dirs is empty)
spec("include_candidate", "dirs:list[str], f:str, i:int", "str",
     "(f if len(dirs) == 0 else os.path.join(dirs[len(dirs) - 1], f)) if i >= len(dirs) or i < 0 else "
     "(os.path.join(dirs[i], f) if os.path.isfile(os.path.join(dirs[i], f)) else include_candidate(dirs, f, i + 1))",
     rec=True)

OPTIONS = '"include_dirs", "_ignore_comments", "_include_omp_conditional_lines", "process_directives", "id"'
KEPT = "old_objects_keep(%s)" % OPTIONS

contract(R + "FortranFileReader.__init__", trusted=True,
    types=dict(self="FortranFileReader", file_candidate="str", include_dirs="list[str]?", source_only="any", ignore_comments="bool",
               ignore_encoding="bool", include_omp_conditional_lines="bool", process_directives="bool"),
    defaults=dict(include_dirs=None, source_only=None, ignore_comments=True, ignore_encoding=True, include_omp_conditional_lines=False, process_directives=False),
    modifies=["self.reader", "self.include_dirs", "self._ignore_comments", "self._include_omp_conditional_lines", "self.process_directives", "self.id",
              "self.linecount", "self.isclosed", "self.filo_line", "self.fifo_item", "self.source_lines"],
    ensures={"id": "self.id == file_candidate",
             "dirs": "implies(include_dirs is not None, self.include_dirs == include_dirs)",
             "options": "self._ignore_comments == (False if process_directives else ignore_comments) and "
                        "self._include_omp_conditional_lines == include_omp_conditional_lines and self.process_directives == process_directives",
             "fresh": "self.reader is None"},
    raises={"*": {"others_kept": KEPT}},
    note="constructor of the nested reader (opens the file, detects its form, FortranReaderBase.__init__ stores the options): "
         "what it stores is stated over the new object's fields")

contract("proto:_next", trusted=True,
    types=dict(self="FortranReaderBase", ignore_comments="bool?"), returns="ref",
    modifies=["*.fifo_item", "*.linecount", "*.filo_line", "*.source_lines", "*.isclosed"],
    ensures={}, raises={"StopIteration": {}, "*!StopIteration": {}},
    note="FortranReaderBase._next: next item of this reader's own source (queue first); may raise anything (next() contains it)")

contract(R + "FortranReaderBase.next",
    types=dict(self="FortranReaderBase", ignore_comments="bool?"), returns="ref",
    locals=dict(include_dirs="list[str]"), alloc_facts=True,
    modifies=["*.fifo_item", "*.linecount", "*.filo_line", "*.source_lines", "*.isclosed", "*.reader", "*.include_dirs", "*._ignore_comments",
              "*._include_omp_conditional_lines", "*.process_directives", "*.id"],
    calls={"self._next": "proto:_next", "os.path.join": "pure:str", "os.path.isfile": "pure:bool",
           "self.format_message": "noraise:str", "str": "pure:str"},
    ensures_local={
        # the nested reader is opened on the first match of the include path, with the parent's options
        "first_matching_directory_wins@after:self.reader = FortranFileReader":
            "os.path.isfile(self.reader.id) and self.reader.id == include_candidate(old(self.include_dirs), filename, 0)",
        "nested_reader_keeps_options@after:self.reader = FortranFileReader":
            "self.reader.include_dirs == old(self.include_dirs) and "
            "self.reader._ignore_comments == "
            "(False if old(self.process_directives) else (old(ignore_comments) if old(ignore_comments) is not None else old(self._ignore_comments))) and "
            "self.reader._include_omp_conditional_lines == old(self._include_omp_conditional_lines) and "
            "self.reader.process_directives == old(self.process_directives)",
        # an include that cannot be resolved is handed on unchanged and no nested reader is left behind
        "unresolved_include_returned_as_item@ret1": "result == item and not os.path.isfile(include_candidate(old(self.include_dirs), filename, 0))",
    },
    ensures={"own_options_kept": KEPT},
    # C06 / C12: whatever happens inside, only StopIteration leaves the reader
    raises={"StopIteration": {"own_options_kept": KEPT}},
    loops={0: dict(invariant={
        "candidate": "path == (filename if _k0 == 0 else os.path.join(include_dirs[_k0 - 1], filename))",
        "none_before": "include_candidate(include_dirs, filename, 0) == include_candidate(include_dirs, filename, _k0)",
        "dirs": "include_dirs == old(self.include_dirs)",
    }, modifies=[])},
    serves=["C06", "C12", "C13"],
)
