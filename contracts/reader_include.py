"""R10: INCLUDE handling in FortranReaderBase.next (C13) and its exception discipline (C06/C12)."""
from pyvc.contracts import contract, spec, ghost

R = "fparser.common.readfortran:"


# the file the search loop settles on: the first directory of dirs (from position i) in which a file of that name exists,
# else the candidate in the last directory (the bare file name when dirs is empty)
spec("include_candidate", "dirs:list[str], f:str, i:int", "str",
     "(f if len(dirs) == 0 else os.path.join(dirs[len(dirs) - 1], f)) if i >= len(dirs) or i < 0 else "
     "(os.path.join(dirs[i], f) if os.path.isfile(os.path.join(dirs[i], f)) else include_candidate(dirs, f, i + 1))",
     rec=True)

OPTIONS = '"include_dirs", "_ignore_comments", "_include_omp_conditional_lines", "process_directives", "id"'
KEPT = "old_objects_keep(%s)" % OPTIONS

FRESH = ("self.linecount == 0 and not self.isclosed and self.filo_line == [] and list(self.fifo_item) == [] and self.source_lines == [] "
         "and self.reader is None")
OPTS = ("self._ignore_comments == (False if process_directives else ignore_comments) and "
        "self._include_omp_conditional_lines == include_omp_conditional_lines and self.process_directives == process_directives")
INIT_FIELDS = ["self.source", "self._include_omp_conditional_lines", "self._format", "self.linecount", "self.isclosed", "self._ignore_comments",
               "self.process_directives", "self.filo_line", "self.fifo_item", "self.source_lines", "self.f2py_comment_lines", "self.reader",
               "self.include_dirs", "self.source_only", "self.exit_on_error", "self.restore_cache", "self._re_omp_sentinel", "self._re_omp_sentinel_cont"]

contract("proto:set_format", trusted=True,
    types=dict(self="FortranReaderBase", mode="ref:FortranFormat"), modifies=["self._format", "self._re_omp_sentinel", "self._re_omp_sentinel_cont"],
    ensures={"stored": "self._format == mode"}, raises=[],
    note="FortranReaderBase.set_format(mode): stores the format and (re)builds the sentinel patterns")

contract(R + "FortranReaderBase.__init__",
    types=dict(self="FortranReaderBase", source="any", mode="ref:FortranFormat", ignore_comments="bool", include_omp_conditional_lines="bool",
               process_directives="bool"),
    defaults=dict(include_omp_conditional_lines=False, process_directives=False),
    modifies=INIT_FIELDS,
    calls={"self.set_format": "proto:set_format"},
    ensures={"fresh": FRESH, "options": OPTS, "default_include_path": "self.include_dirs == ['.']", "format": "self._format == mode"},
    raises=[],
    serves=["C12", "C13"],
)

contract(R + "FortranFileReader.__init__",
    types=dict(self="FortranFileReader", file_candidate="str", include_dirs="list[str]?", source_only="list[str]?", ignore_comments="bool",
               ignore_encoding="bool", include_omp_conditional_lines="bool", process_directives="bool"),
    defaults=dict(include_dirs=None, source_only=None, ignore_comments=True, ignore_encoding=True, include_omp_conditional_lines=False, process_directives=False),
    modifies=INIT_FIELDS + ["self.id", "self.file", "self._close_on_destruction"],
    calls={"open": "opaque:any", "fparser.common.sourceinfo.get_source_info": "opaque:ref:FortranFormat", "os.path.dirname": "pure:str"},
    ensures={"id": "self.id == file_candidate",
             # C13: the include path is exactly the one given; only without one the file's own directory comes first
             "dirs": "implies(include_dirs is not None, self.include_dirs == include_dirs)",
             "dirs_default": "implies(include_dirs is None, self.include_dirs == [os.path.dirname(file_candidate), '.'])",
             "options": OPTS,
             "fresh": FRESH},
    raises={"*": {"others_kept": KEPT}},
    serves=["C13"],
    note="open() and get_source_info() are abstracted (may raise anything); the file-like branch is excluded by the argument type")

contract(R + "FortranStringReader.__init__",
    types=dict(self="FortranStringReader", string="str", include_dirs="list[str]?", source_only="list[str]?", ignore_comments="bool",
               ignore_encoding="bool", include_omp_conditional_lines="bool", process_directives="bool"),
    defaults=dict(include_dirs=None, source_only=None, ignore_comments=True, ignore_encoding=True, include_omp_conditional_lines=False, process_directives=False),
    modifies=INIT_FIELDS + ["self.id"],
    calls={"StringIO": "opaque:any", "fparser.common.sourceinfo.get_source_info_str": "opaque:ref:FortranFormat", "hash": "pure:int", "str": "pure:str"},
    ensures={"dirs": "implies(include_dirs is not None, self.include_dirs == include_dirs)",
             "dirs_default": "implies(include_dirs is None, self.include_dirs == ['.'])", "options": OPTS, "fresh": FRESH},
    raises={"*": {}},
    serves=["C13"],
)

contract("proto:_next", trusted=True,
    types=dict(self="FortranReaderBase", ignore_comments="bool?"), returns="ref",
    modifies=["*.fifo_item", "*.linecount", "*.filo_line", "*.source_lines", "*.isclosed"],
    ensures={}, raises={"StopIteration": {}, "*!StopIteration": {}},
    note="FortranReaderBase._next: next item of this reader's own source (queue first); may raise anything (next() contains it)")

contract(R + "FortranReaderBase.next",
    types=dict(self="FortranReaderBase", ignore_comments="bool?"), returns="ref",
    locals=dict(include_dirs="list[str]"), alloc_facts=True,
    modifies=["*.fifo_item", "*.linecount", "*.filo_line", "*.source_lines", "*.isclosed", "*.reader", "*.include_dirs", "*._ignore_comments",
              "*._include_omp_conditional_lines", "*.process_directives", "*.id"],
    calls={"self._next": "proto:_next", "os.path.join": "pure:str", "os.path.isfile": "pure:bool", "os.path.dirname": "pure:str",
           "self.format_message": "noraise:str", "str": "pure:str"},
    ensures_local={
        # the nested reader is opened on the first match of the include path, with the parent's options
        "first_matching_directory_wins@after:self.reader = FortranFileReader":
            "os.path.isfile(self.reader.id) and self.reader.id == include_candidate(old(self.include_dirs), filename, 0)",
        "nested_reader_keeps_options@after:self.reader = FortranFileReader":
            "self.reader.include_dirs == old(self.include_dirs) and "
            "self.reader._ignore_comments == "
            "(False if old(self.process_directives) else (old(ignore_comments) if old(ignore_comments) is not None else old(self._ignore_comments))) and "
            "self.reader._include_omp_conditional_lines == old(self._include_omp_conditional_lines) and "
            "self.reader.process_directives == old(self.process_directives)",
        # an include that cannot be resolved is handed on unchanged and no nested reader is left behind
        # every line of the INCLUDE form (the reader's own pattern: any letter case, either quote) is looked up; only other items pass through
        "only_non_include_lines_pass_through@ret3": "not (isinstance(item, Line) and _IS_INCLUDE_LINE(item.line))",
        "looked_up_lines_have_the_include_form@ret1": "isinstance(item, Line) and _IS_INCLUDE_LINE(item.line)",
        "unresolved_include_returned_as_item@ret1": "result == item and not os.path.isfile(include_candidate(old(self.include_dirs), filename, 0))",
    },
    ensures={"own_options_kept": KEPT},
    # C06 / C12: whatever happens inside, only StopIteration leaves the reader
    raises={"StopIteration": {"own_options_kept": KEPT}},
    loops={0: dict(invariant={
        "candidate": "path == (filename if _k0 == 0 else os.path.join(include_dirs[_k0 - 1], filename))",
        "none_before": "include_candidate(include_dirs, filename, 0) == include_candidate(include_dirs, filename, _k0)",
        "dirs": "include_dirs == old(self.include_dirs)",
    }, modifies=[])},
    serves=["C06", "C12", "C13", "C15"],
)
