"""F8: Intrinsic_Function_Reference.match - a reference is an intrinsic only if its name is not visible
in the current scope (C16)."""
from pyvc.contracts import contract, spec, ghost

F = "fparser.two.Fortran2003:"

# name n (lower-cased) is declared / imported in table t or one of its ancestors (uninterpreted here; the
# recursive definition over _data_symbols / _modules / _parent is the contract of SymbolTable.lookup)
# a use-associated module makes a (lower-case) name available: abstract content of ModuleUse._symbols
spec("mod_has", "m:ref, n:str", "bool", None)
# T7: what SymbolTable.lookup finds: own declarations, names imported by a USE in this table, then the enclosing scopes
spec("visible", "t:SymbolTable, n:str", "bool",
     "n in t._data_symbols or any(mod_has(t._modules.values()[k], n) for k in range(len(t._modules.values()))) or "
     "(t._parent is not None and visible(nonnull(t._parent), n))", rec=True, heap=("_data_symbols", "_modules", "_parent"))

contract("proto:module_lookup", trusted=True,
    types=dict(self="ref", name="str"), returns="any", modifies=[],
    ensures={"has": "mod_has(self, name)"},
    raises={"KeyError": {"has_not": "not mod_has(self, name)"}},
    note="ModuleUse.lookup(name): self._symbols[name.lower()] (callers pass lower-case names)")

contract("fparser.two.symbol_table:SymbolTable.lookup",
    types=dict(self="SymbolTable", name="str"), returns="any",
    modifies=[],
    str_axioms=["case_idempotent"],
    calls={"module.lookup": "proto:module_lookup", "self.parent.lookup": "fparser.two.symbol_table:SymbolTable.lookup"},
    ensures={"found_means_visible": "visible(self, name.lower())"},
    raises={"KeyError": {"not_visible": "not visible(self, name.lower())"}},
    loops={0: dict(seq="mods", invariant={
        "none_so_far": "all(not mod_has(mods[k], lname) for k in range(_k0))",
        "mods": "mods == self._modules.values()",
    }, modifies=[])},
    serves=["C16"],
    note="termination (finite parent chain) is not proved; the recursive call is used through this contract",
)

contract("fparser.two.symbol_table:SymbolTable.all_symbols_resolved", prop=True, trusted=True,
    types=dict(self="SymbolTable"), returns="bool", modifies=[], ensures={}, raises=[],
    note="property: whether every wildcard import of this table and its ancestors is resolved (reads tables only)")

contract("proto:callbase_match", trusted=True,
    types=dict(lhs_cls="any", rhs_cls="any", string="str"), returns="tuple[ref:Base,any]?",
    modifies=[], ensures={}, raises={"*": {}},
    note="CallBase.match(lhs_cls, rhs_cls, string): (name node, argument list or None) or None")

contract(F + "Intrinsic_Function_Reference.match",
    types=dict(cls="cls", string="str"),
    returns="tuple[ref:Base,any]?",
    bind={"SYMBOL_TABLES": "ref:SymbolTables"},
    calls={"CallBase.match": "proto:callbase_match", "table.lookup": "fparser.two.symbol_table:SymbolTable.lookup",
           "intrinsic_type.specific_function_names.keys": "pure:any"},
    ensures_local={
        # "exactly when name is a Fortran intrinsic that is not declared in the enclosing scopes visible at that point"
        "shadowed_name_is_not_intrinsic@ret6": "implies(table is not None, not visible(nonnull(table), function_name.lower()))",
        "shadowed_name_is_not_intrinsic@ret3": "implies(table is not None, not visible(nonnull(table), function_name.lower()))",
        "name_checked_is_the_referenced_name@ret1": "table is not None and visible(nonnull(table), function_name.lower())",
    },
    raises={"InternalSyntaxError": {}, "*": {}},
    serves=["C16"],
)

# T8: a USE statement is recorded in the table of the scope it appears in, and nowhere else
from pyvc.contracts import klass
klass("ModuleUse", module="fparser.two.symbol_table", fields=dict(_name="str"))

contract("proto:ModuleUse", trusted=True,
    types=dict(name="str", only_list="any", rename_list="any"), returns="ref:ModuleUse", modifies=[],
    defaults=dict(only_list=None, rename_list=None),
    ensures={"named": "result._name == name.lower()", "new": "not was_allocated(result)"},
    raises={"*": {}},
    note="ModuleUse(name, only_list, rename_list): a new record for one USE statement, named in lower case (may raise on malformed lists)")

contract("proto:ModuleUse.update", trusted=True,
    types=dict(self="ref:ModuleUse", other="ref:ModuleUse"), modifies=[], ensures={}, raises={"*": {}},
    note="ModuleUse.update(other): merges the symbols of another USE of the same module into this record (its own fields only)")

contract("fparser.two.symbol_table:ModuleUse.name", prop=True,
    types=dict(self="ModuleUse"), returns="str", modifies=[], ensures={"is_field": "result == self._name"}, raises=[])

contract("fparser.two.symbol_table:SymbolTable.add_use_symbols",
    types=dict(self="SymbolTable", name="str", only_list="any", rename_list="any"),
    defaults=dict(only_list=None, rename_list=None),
    modifies=["self._modules"],
    calls={"ModuleUse": "proto:ModuleUse", "self._modules[use.name].update": "proto:ModuleUse.update"},
    ensures={
        "recorded_in_this_table": "name.lower() in self._modules",
        "other_entries_kept": "dict_same_except(self._modules, old(self._modules), name.lower())",
        "existing_record_is_kept": "implies(name.lower() in old(self._modules), self._modules[name.lower()] == old(self._modules)[name.lower()])",
        # frame (checked): no other table's module list changes - a USE in an inner scope does not reach its ancestors
    },
    raises={"*": {"nothing_recorded": "self._modules == old(self._modules)"}},
    serves=["C16"],
)

# T9: declarations register their entities in the table of the scope they appear in (C16)
contract("fparser.two.symbol_table:SymbolTable.add_data_symbol@unchecked",
    types=dict(self="SymbolTable", name="str", primitive_type="str"),
    requires={"checks_off": "not self._checking_enabled"},
    modifies=["self._data_symbols"],
    calls={"SymbolTable.Symbol": "pure:any"},
    ensures={"registered_in_lower_case": "name.lower() in self._data_symbols",
             "others_kept": "dict_same_except(self._data_symbols, old(self._data_symbols), name.lower())"},
    raises=[],
    serves=["C16"],
    note="the variant with checking switched off (the parser's default); with checks on SymbolTableError may be raised")

contract("proto:add_data_symbol", trusted=True,
    types=dict(self="SymbolTable", name="any", primitive_type="any"),
    modifies=["self._data_symbols"],
    ensures={"registered": "entity_key(name) in self._data_symbols",
             "only_grows": "dict_subset(old(self._data_symbols), self._data_symbols)"},
    raises={"SymbolTableError": {"unchanged": "self._data_symbols == old(self._data_symbols)"}},
    note="SymbolTable.add_data_symbol as used by the parser: the (lower-cased) name is a key afterwards; proved separately for the unchecked variant")
spec("entity_key", "name:any", "str", None)        # lower-cased text of an entity name node

contract("fparser.two.Fortran2003:Type_Declaration_Stmt.add_to_symbol_table",
    types=dict(result="tuple[ref:Base,any,ref:Base]?"),
    bind={"SYMBOL_TABLES": "ref:SymbolTables"},
    modifies=["*._data_symbols"],
    calls={"walk": "pure:list[ref]", "table.add_data_symbol": "proto:add_data_symbol", "str": "pure:str", "isinstance": "pure:bool"},
    # shape of an Entity_Decl node: (name, array-spec, char-length, initialization), the tuple Entity_Decl.match returns
    requires={"entity_decl_shape": "all(len(walk(result, Entity_Decl)[k].items) == 4 for k in range(len(walk(result, Entity_Decl))))"},
    ensures={
        # every entity of an intrinsic-typed declaration ends up in the table of the *current* scope ...
        "entities_registered_in_the_current_scope": "implies(result is not None and SYMBOL_TABLES._current_scope is not None and isinstance(nonnull(result)[0], Intrinsic_Type_Spec), "
            "all(entity_key(walk(result, Entity_Decl)[k].items[0].string) in SYMBOL_TABLES._current_scope._data_symbols for k in range(len(walk(result, Entity_Decl)))))",
        # ... and no other table is touched
        "no_other_table_changes": "unchanged_except('_data_symbols', SYMBOL_TABLES._current_scope)",
        "nothing_without_a_scope": "implies(SYMBOL_TABLES._current_scope is None or result is None, unchanged_except('_data_symbols', None))",
    },
    raises={"SymbolTableError": {}},
    loops={0: dict(seq="decls", invariant={
        "so_far": "all(entity_key(decls[k].items[0].string) in table._data_symbols for k in range(_k0))",
        "frame": "unchanged_except('_data_symbols', table)",
        "decls": "decls == walk(result, Entity_Decl)",
    }, modifies=["*._data_symbols"])},
    serves=["C16"],
)
