"""F8: Intrinsic_Function_Reference.match - a reference is an intrinsic only if its name is not visible
in the current scope (C16)."""
from pyvc.contracts import contract, spec, ghost

F = "fparser.two.Fortran2003:"

# name n (lower-cased) is declared / imported in table t or one of its ancestors (uninterpreted here; the
# recursive definition over _data_symbols / _modules / _parent is the contract of SymbolTable.lookup)
spec("visible", "t:SymbolTable, n:str", "bool", None)

contract("proto:symtab_lookup", trusted=True,
    types=dict(self="SymbolTable", name="str"), returns="any",
    modifies=[],
    ensures={"found_means_visible": "visible(self, name.lower())"},
    raises={"KeyError": {"not_visible": "not visible(self, name.lower())"}},
    note="SymbolTable.lookup(name): succeeds iff the (lower-cased) name is visible from this table through its parents")

contract("fparser.two.symbol_table:SymbolTable.all_symbols_resolved", prop=True, trusted=True,
    types=dict(self="SymbolTable"), returns="bool", modifies=[], ensures={}, raises=[],
    note="property: whether every wildcard import of this table and its ancestors is resolved (reads tables only)")

contract("proto:callbase_match", trusted=True,
    types=dict(lhs_cls="any", rhs_cls="any", string="str"), returns="tuple[ref:Base,any]?",
    modifies=[], ensures={}, raises={"*": {}},
    note="CallBase.match(lhs_cls, rhs_cls, string): (name node, argument list or None) or None")

contract(F + "Intrinsic_Function_Reference.match",
    types=dict(cls="cls", string="str"),
    returns="tuple[ref:Base,any]?",
    bind={"SYMBOL_TABLES": "ref:SymbolTables"},
    calls={"CallBase.match": "proto:callbase_match", "table.lookup": "proto:symtab_lookup",
           "intrinsic_type.specific_function_names.keys": "pure:any"},
    ensures_local={
        # "exactly when name is a Fortran intrinsic that is not declared in the enclosing scopes visible at that point"
        "shadowed_name_is_not_intrinsic@ret6": "implies(table is not None, not visible(nonnull(table), function_name.lower()))",
        "shadowed_name_is_not_intrinsic@ret3": "implies(table is not None, not visible(nonnull(table), function_name.lower()))",
        "name_checked_is_the_referenced_name@ret1": "table is not None and visible(nonnull(table), function_name.lower())",
    },
    raises={"InternalSyntaxError": {}, "*": {}},
    serves=["C16"],
)
