"""Contracts for exception construction and reader diagnostics (U1, R17, F1)."""
from pyvc.contracts import contract, spec

U = "fparser.two.utils:"
R = "fparser.common.readfortran:"
F = "fparser.two.Fortran2003:"

# G2 as a predicate
spec("INV_LC", "r:FortranReaderBase", "bool",
     "0 <= r.linecount and r.linecount + len(r.filo_line) == len(r.source_lines)", macro=True)

contract("ext:FparserException.__init__", trusted=True,
    types=dict(self="FparserException", info="str"),
    modifies=["self.message"], ensures={"stored": "self.message == info"}, raises=[])

contract(U + "FortranSyntaxError.__init__@reader",
    types=dict(self="FortranSyntaxError", reader="FortranReaderBase", info="str"),
    requires={"lines_read": "len(reader.source_lines) > 0", "inv": "INV_LC(reader)"},
    modifies=["self.message"],
    calls={"FparserException.__init__": "ext:FparserException.__init__"},
    ensures={
        "message": "self.message == 'at line ' + str(reader.linecount) + '\\n>>>' + "
                   "reader.source_lines[reader.linecount - 1 if reader.linecount > 0 else len(reader.source_lines) - 1] + '\\n' + info",
        "names_current_line": "implies(reader.linecount > 0, self.message.startswith('at line ' + str(reader.linecount) + '\\n>>>' + reader.source_lines[reader.linecount - 1] + '\\n'))",
    },
    raises=[],
    serves=["C06", "C07"],
)

contract(U + "FortranSyntaxError.__init__@text",
    types=dict(self="FortranSyntaxError", reader="str", info="str"),
    modifies=["self.message"],
    calls={"FparserException.__init__": "ext:FparserException.__init__"},
    ensures={"message": "self.message == 'at unknown location ' + info"},
    raises=[],
    serves=["C06"],
)

for _name in ("error", "warning", "info"):
    contract(R + "FortranReaderBase.%s" % _name,
        types=dict(self="FortranReaderBase", message="str", item="ref:Line?"),
        calls={"self.format_error_message": "noraise:str", "self.format_warning_message": "noraise:str",
               "self.format_message": "noraise:str"},
        ensures={"returns_normally": "True"},
        # a diagnostic must never end the calling process (C06) - SystemExit is not declared
        raises=[],
        serves=["C06", "C08"],
        note="message formatting (format_message) is abstracted as a total function [A]",
    )

contract(U + "FortranSyntaxError.__init__@reader_exc",
    types=dict(self="FortranSyntaxError", reader="FortranReaderBase", info="any"),
    requires={"lines_read": "len(reader.source_lines) > 0", "inv": "INV_LC(reader)"},
    modifies=["self.message"],
    calls={"FparserException.__init__": "ext:FparserException.__init__"},
    ensures={
        "names_current_line": "implies(reader.linecount > 0, self.message.startswith('at line ' + str(reader.linecount) + '\\n>>>' + reader.source_lines[reader.linecount - 1] + '\\n'))",
    },
    raises=[],
    serves=["C06", "C07"],
)

contract("proto:Base.__new__@program", trusted=True,
    types=dict(cls="cls", string="FortranReaderBase", parent_cls="any", _deepcopy="bool"),
    defaults=dict(parent_cls=None, _deepcopy=False),
    returns="ref:Base?",
    modifies=["view", "*.fifo_item", "*.linecount", "*.filo_line", "*.source_lines", "*.isclosed", "*._children", "*._symbol_tables"],
    ensures={},
    raises={"NoMatchError": {"lines_read": "len(string.source_lines) > 0 and INV_LC(string)"},
            "InternalSyntaxError": {"lines_read": "len(string.source_lines) > 0 and INV_LC(string)"},
            "FortranSyntaxError": {}},
    note="[A] the parse below Program raises only NoMatchError, InternalSyntaxError or FortranSyntaxError, and "
         "only after at least one physical line was read with the line bookkeeping G2 intact")

contract(F + "Program.__new__",
    types=dict(cls="cls", string="FortranReaderBase", _deepcopy="bool"),
    returns="ref:Base?",
    modifies=["view", "*.fifo_item", "*.linecount", "*.filo_line", "*.source_lines", "*.isclosed", "*._children", "*._symbol_tables", "*.message"],
    calls={"Base.__new__": "proto:Base.__new__@program"},
    ensures={},
    # C06: whatever the parse below raises (within [A]) leaves as FortranSyntaxError
    raises={"FortranSyntaxError": {}},
    serves=["C06"],
)
