"""Contracts for the small pure helpers of fparser/common/readfortran.py (R1-R4, R11, R13)."""
from pyvc.contracts import contract, spec, assumed

M = "fparser.common.readfortran:"

contract(M + "_is_fix_cont",
    types=dict(line="str?"),
    returns="bool",
    ensures={
        # truthiness of the returned value is what callers use
        # Fortran 2003 3.3.2.3: any character other than blank or zero in column 6, columns 1-5 blank
        "iff_col6": "result == (line is not None and len(line) > 5 and line[5] != ' ' and line[5] != '0' and line[:5] == '     ')",
        "zero_is_an_initial_line": "implies(line is not None and len(line) > 5 and line[5] == '0', not result)",
    },
    raises=[],
    domain=dict(line="[None] + list(strings(' a0!', N))", _size=dict(quick=7, thorough=8)),
    serves=["C05"],
)

contract(M + "_is_fix_comment",
    types=dict(line="str", isstrict="bool", f2py_enabled="bool"),
    returns="bool",
    ensures={
        "col1_marker": "implies(len(line) > 0 and (line[0] == '*' or line[0] == 'c' or line[0] == 'C' or line[0] == '!') and not f2py_enabled, result)",
        "empty_is_comment": "implies(line == '', result)",
        "statement_line_is_not": "implies(len(line) > 0 and not (line[0] == '*' or line[0] == 'c' or line[0] == 'C' or line[0] == '!') and '!' not in line, not result)",
        "strict_only_col1": "implies(isstrict and len(line) > 0 and not (line[0] == '*' or line[0] == 'c' or line[0] == 'C' or line[0] == '!'), not result)",
        "bang_in_col6_is_continuation": "implies(not isstrict and len(line) > 5 and line[:5] == '     ' and line[5] == '!', not result)",
        # a '!' with something other than blanks in front of it starts an in-line comment (or sits in a literal, or in a
        # preprocessor line such as '#if !defined(X)'): the line itself is not a comment line
        "text_before_the_bang_is_not_a_comment_line": "implies(len(line) > 0 and not (line[0] == '*' or line[0] == 'c' or line[0] == 'C' or line[0] == '!') "
                                                      "and '!' in line and line[:line.find('!')].lstrip() != '', not result)",
    },
    raises=[],
    domain=dict(line="strings(' c!x#', N)", isstrict="[False, True]", f2py_enabled="[False]", _size=dict(quick=6, thorough=7)),
    serves=["C05", "C11", "C14"],
)

contract(M + "FortranReaderBase.replace_omp_sentinels",
    types=dict(line="str", regex="regex"),
    returns="tuple[str,bool]", pure=True,
    # every sentinel pattern built by set_format has a first group of exactly two characters
    # that took part in the match (validated exhaustively by checks/enum_sentinels.py)
    assume={"group1_len2": "implies(re_matched(regex, line), re_start(regex, line, 1) >= 0 and re_end(regex, line, 1) == re_start(regex, line, 1) + 2)"},
    ensures={
        "no_match_unchanged": "implies(not re_matched(regex, line), result[0] == line and not result[1])",
        "flag": "result[1] == re_matched(regex, line)",
        "length_preserved": "len(result[0]) == len(line)",
        "blanks_written": "implies(re_matched(regex, line), result[0][re_start(regex, line, 1):re_start(regex, line, 1) + 2] == '  ')",
        "rest_unchanged": "implies(re_matched(regex, line), result[0][:re_start(regex, line, 1)] == line[:re_start(regex, line, 1)] and result[0][re_start(regex, line, 1) + 2:] == line[re_start(regex, line, 1) + 2:])",
    },
    raises=[],
    serves=["C15"],
)

contract(M + "FortranReaderBase.handle_cpp_directive",
    types=dict(self="FortranReaderBase", line="str"),
    returns="tuple[str,bool]",
    ensures={
        "line_unchanged": "result[0] == line",
        "flag": "result[1] == (line != '' and not (self._format._is_free and self._format._is_strict) and line.lstrip().startswith('#'))",
        "hash_first_nonblank": "implies(result[1], line.lstrip()[0] == '#')",
    },
    raises=[],
    serves=["C14"],
)

# --- regex axioms [A], each validated against CPython re by checks/enum_regex_axioms.py ---------
LABEL_AXIOMS = {
    # \s*(?P<label>\d+)\s*(\b|(?=&)|\Z): the label group always takes part, is a non-empty run of
    # decimal digits preceded only by whitespace, and the match ends after the digits
    "label_group": "implies(re_matched('_LABEL_RE', line), re_start('_LABEL_RE', line, 'label') >= 0 "
                   "and re_end('_LABEL_RE', line, 'label') > re_start('_LABEL_RE', line, 'label') "
                   "and re_end('_LABEL_RE', line, 0) >= re_end('_LABEL_RE', line, 'label'))",
    "label_digits": "implies(re_matched('_LABEL_RE', line), is_digits(re_group('_LABEL_RE', line, 'label')))",
    "label_lead_ws": "implies(re_matched('_LABEL_RE', line), line[:re_start('_LABEL_RE', line, 'label')].strip() == '')",
}
NAME_AXIOMS = {
    "name_group": "implies(re_matched('_CONSTRUCT_NAME_RE', line), re_start('_CONSTRUCT_NAME_RE', line, 'name') >= 0 "
                  "and re_end('_CONSTRUCT_NAME_RE', line, 'name') > re_start('_CONSTRUCT_NAME_RE', line, 'name') "
                  "and re_end('_CONSTRUCT_NAME_RE', line, 0) > re_end('_CONSTRUCT_NAME_RE', line, 'name'))",
    "name_then_colon": "implies(re_matched('_CONSTRUCT_NAME_RE', line), ':' in line[re_end('_CONSTRUCT_NAME_RE', line, 'name'):re_end('_CONSTRUCT_NAME_RE', line, 0)])",
}

contract(M + "extract_label",
    types=dict(line="str"),
    returns="tuple[int?,str]",
    assume=LABEL_AXIOMS,
    ensures={
        "found_iff_match": "(result[0] is not None) == re_matched('_LABEL_RE', line)",
        "no_label_unchanged": "implies(result[0] is None, result[1] == line)",
        "label_value": "implies(result[0] is not None, result[0] == int(re_group('_LABEL_RE', line, 'label')))",
        "label_nonneg": "implies(result[0] is not None, result[0] >= 0)",
        "rest_is_stripped_remainder": "implies(result[0] is not None, result[1] == line[re_end('_LABEL_RE', line, 0):].lstrip())",
        "rest_after_digits": "implies(result[0] is not None, len(result[1]) <= len(line) - re_end('_LABEL_RE', line, 'label'))",
    },
    raises=[],
    domain=dict(line="strings(' 1a&:', N)", _size=dict(quick=6, thorough=8)),
    serves=["C01", "C04", "C12"],
)

contract(M + "extract_construct_name",
    types=dict(line="str"),
    returns="tuple[str?,str]",
    assume=NAME_AXIOMS,
    ensures={
        "found_iff_match": "(result[0] is not None) == re_matched('_CONSTRUCT_NAME_RE', line)",
        "no_name_unchanged": "implies(result[0] is None, result[1] == line)",
        "name_text": "implies(result[0] is not None, result[0] == re_group('_CONSTRUCT_NAME_RE', line, 'name') and result[0] != '')",
        "rest_is_stripped_remainder": "implies(result[0] is not None, result[1] == line[re_end('_CONSTRUCT_NAME_RE', line, 0):].lstrip())",
    },
    raises=[],
    domain=dict(line="strings(' 1a&:', N)", _size=dict(quick=6, thorough=8)),
    serves=["C01", "C04", "C12"],
)
