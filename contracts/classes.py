"""Class declarations (field types) shared by the contracts."""
from pyvc.contracts import klass, ghost

klass("FortranFormat", module="fparser.common.sourceinfo",
      fields=dict(_is_free="bool", _is_strict="bool", _f2py_enabled="bool"))

klass("FortranReaderBase", module="fparser.common.readfortran", fields=dict(
    source="any", _include_omp_conditional_lines="bool", _format="ref:FortranFormat",
    linecount="int", isclosed="bool", _ignore_comments="bool", process_directives="bool",
    filo_line="list[str]", fifo_item="list[ref]", source_lines="list[str]",
    f2py_comment_lines="list[int]", reader="ref:FortranReaderBase?", include_dirs="list[str]",
    exit_on_error="bool", _re_omp_sentinel="regex", _re_omp_sentinel_cont="regex", id="str",
))
klass("FortranFileReader", bases=("FortranReaderBase",), module="fparser.common.readfortran")
klass("FortranStringReader", bases=("FortranReaderBase",), module="fparser.common.readfortran")

klass("Line", module="fparser.common.readfortran", fields=dict(
    line="str", span="tuple[int,int]", label="int?", name="str?", strline="str?",
    is_f2py_directive="bool", parse_cache="dict[cls,ref?]"))
klass("CppDirective", bases=("Line",), module="fparser.common.readfortran")
klass("Comment", module="fparser.common.readfortran", fields=dict(comment="str", inline="bool"))

klass("SymbolTables", module="fparser.two.symbol_table", fields=dict(
    _symbol_tables="dict[str,ref]", _current_scope="ref:SymbolTable?", _enable_checks="bool"))
klass("SymbolTable", module="fparser.two.symbol_table", fields=dict(
    _name="str", _parent="ref:SymbolTable?", _children="list[ref:SymbolTable]", _node="any", _checking_enabled="bool",
    _data_symbols="dict[str,any]", _modules="dict[str,ref]"))
klass("SymbolTableError", bases=("Exception",), exception=True)

# G4: the open scoping regions, outermost first
ghost("scope_stack", "list[ref]")

klass("FparserException", bases=("Exception",), exception=True, fields=dict(message="str"))
klass("NoMatchError", bases=("FparserException",), exception=True)
klass("FortranSyntaxError", bases=("FparserException",), exception=True)
klass("InternalError", bases=("FparserException",), exception=True)
klass("InternalSyntaxError", bases=("FparserException",), exception=True)

klass("Base", module="fparser.two.utils", fields=dict(parent="ref:Base?", item="ref?", string="any", content="list[ref:Base]", items="list[any]"))
klass("BlockBase", bases=("Base",), module="fparser.two.utils")
klass("StmtBase", bases=("Base",), module="fparser.two.utils")
klass("SequenceBase", bases=("Base",), module="fparser.two.utils", fields=dict(separator="str"))
klass("EndStmtBase", bases=("StmtBase",), module="fparser.two.utils")
klass("ScopingRegionMixin", module="fparser.two.utils")

# G1: items the reader will still deliver, next first
ghost("view", "list[ref]")

for _c in ("Label_Do_Stmt", "Label_Do_Stmt_2008", "End_Do", "End_Do_Stmt", "Continue_Stmt", "Else_If_Stmt", "Else_Stmt",
           "End_If_Stmt", "Masked_Elsewhere_Stmt", "Elsewhere_Stmt", "End_Where_Stmt", "Include_Stmt", "Directive"):
    klass(_c, bases=("Base",))

# C20: number of evaluations of string-level rules (incremented by the protocol contract of a rule call on a string)
ghost("rule_evals", "int")
