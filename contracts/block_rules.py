"""The block rules whose match(reader) does not simply delegate to BlockBase.match: the block protocol (what
proto:block_match assumes in Base.__new__@rule) proved for each of them.  checks/enum_block_table.py enumerates the
classes with a match(reader) and requires every one to be a single `return BlockBase.match(...)` or to be listed here."""
from pyvc.contracts import contract

F = "fparser.two.Fortran2003:"
MOD = ["view", "*.fifo_item", "*.linecount", "*.filo_line", "*.source_lines", "*.isclosed", "*._children"]
BLOCK_ENSURES = {
    "restore": "implies(result is None, view == old(view))",
    "order": "implies(result is not None, old(view) == cons(result[0]) + view and len(result[0]) > 0)",
}

contract(F + "Component_Part.match",
    types=dict(reader="FortranReaderBase"), returns="tuple[list[ref:Base]]?",
    locals=dict(content="list[ref:Base]"),
    modifies=MOD,
    calls={"Component_Def_Stmt": "proto:rule_call"},
    ensures=BLOCK_ENSURES,
    raises={"*!NoMatchError!StopIteration": {}},
    loops={0: dict(invariant={"accounted": "old(view) == cons(content) + view"}, types={"obj": "ref:Base?"})},
    serves=["C08", "C12"],
    note="a component part is the longest run of component definitions; the first failing attempt has restored the reader (G3)")

for _c, _last in (("Outer_Shared_Do_Construct", "Shared_Term_Do_Construct"), ("Inner_Shared_Do_Construct", "Do_Term_Shared_Stmt")):
    contract(F + _c + ".match",
        types=dict(reader="FortranReaderBase"), returns="tuple[list[ref:Base]]?",
        locals=dict(content="list[ref:Base]"),
        modifies=MOD,
        calls={"cls": "proto:rule_call", "*.restore_reader": "proto:restore_reader"},
        ensures=BLOCK_ENSURES,
        raises={"*!NoMatchError!StopIteration": {}},
        loops={0: dict(invariant={"accounted": "old(view) == cons(content) + view", "count": "len(content) == _k0"}, types={"obj": "ref:Base?", "cls": "cls"}),
               1: dict(invariant={"restoring": "cons(content[:len(content) - _k1]) + view == old(view)"}, modifies=["view", "*.fifo_item"])},
        serves=["C08", "C12"],
        note="DO statement, body and shared terminator in this order; a failing part gives back what the earlier parts consumed (repaired in fed94f1)")
