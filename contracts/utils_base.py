"""Contracts for Base.__new__ and friends (U3, U4, U5, F1)."""
from pyvc.contracts import contract, spec

U = "fparser.two.utils:"
F = "fparser.two.Fortran2003:"

contract(U + "FparserException.__init__", trusted=True,
    types=dict(self="FparserException", info="str"),
    modifies=["self.message"], ensures={"stored": "self.message == info"}, raises=[],
    note="Exception.__init__(self, info): str(exc) is info [A: CPython]")

contract("proto:get_item", trusted=True,
    types=dict(self="FortranReaderBase", ignore_comments="bool?"), returns="ref?", defaults=dict(ignore_comments=None),
    modifies=["view", "*.fifo_item", "*.linecount", "*.filo_line", "*.source_lines", "*.isclosed"],
    ensures={
        "end_of_input": "implies(result is None, old(view) == [] and view == [])",
        "delivers_head": "implies(result is not None, old(view) == [nonnull(result)] + view)",
    },
    raises=[],
    note="reader.get_item() over the ghost view G1 (the concrete queue side is proved in reader_buffers)")

contract("proto:put_item", trusted=True,
    types=dict(self="FortranReaderBase", item="ref"),
    modifies=["view", "*.fifo_item"],
    ensures={"pushed_front": "view == [item] + old(view)"},
    raises=[],
    note="reader.put_item(item) over the ghost view G1 (concrete side: FortranReaderBase.put_item, proved)")

contract("proto:parse_line", trusted=True,
    types=dict(self="ref:Line", cls="cls", parent_cls="any"), returns="ref:Base?",
    modifies=[],
    ensures={"node_is_new_or_cached": "True"},
    raises={"NoMatchError": {}, "*": {}},
    note="item.parse_line(cls, parent_cls): evaluates the string rule; touches neither the reader nor the scopes")

# --- statement branch: a reader and a non-block rule with a match method ---------------------
contract(U + "Base.__new__@stmt",
    types=dict(cls="cls", string="FortranReaderBase", parent_cls="any", _deepcopy="bool"),
    returns="ref:Base?",
    requires={"statement_rule": "cls_has(cls, 'match') and not cls_issub(cls, 'BlockBase')", "no_copy": "not _deepcopy"},
    modifies=["view", "*.fifo_item", "*.linecount", "*.filo_line", "*.source_lines", "*.isclosed", "*.item"],
    calls={"reader.get_item": "proto:get_item", "reader.put_item": "proto:put_item", "item.parse_line": "proto:parse_line",
           "parent_cls.append": "ignore"},
    ensures={
        "no_match_restores": "implies(result is None, view == old(view))",
        "match_consumes_one_item": "implies(result is not None, len(old(view)) > 0 and old(view) == [old(view)[0]] + view and result.item == old(view)[0])",
    },
    raises={"*": {}},
    serves=["C07", "C10", "C12", "C20"],
    note="comments are recognised by isinstance(item, readfortran.Comment), abstracted as an uninterpreted test",
)

# --- deep-copy exit ---------------------------------------------------------------------------
contract(U + "Base.__new__@deepcopy",
    types=dict(cls="cls", string="any", parent_cls="any", _deepcopy="bool"),
    returns="ref:Base?",
    requires={"copying": "_deepcopy"},
    modifies=[],
    calls={"parent_cls.append": "ignore"},
    ensures={
        "fresh_instance": "result is not None and not was_allocated(result) and typeof_is_cls(result, cls)",
    },
    raises=[],
    serves=["C18"],
    note="nothing but object.__new__(cls) happens: no match(), no reader access (empty modifies clause, frame-checked)",
)
