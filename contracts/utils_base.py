"""Contracts for Base.__new__ and friends (U3, U4, U5, F1)."""
from pyvc.contracts import contract, spec

U = "fparser.two.utils:"
F = "fparser.two.Fortran2003:"

contract(U + "FparserException.__init__", trusted=True,
    types=dict(self="FparserException", info="str"),
    modifies=["self.message"], ensures={"stored": "self.message == info"}, raises=[],
    note="Exception.__init__(self, info): str(exc) is info [A: CPython]")

contract("proto:get_item", trusted=True,
    types=dict(self="FortranReaderBase", ignore_comments="bool?"), returns="ref?", defaults=dict(ignore_comments=None),
    modifies=["view", "*.fifo_item", "*.linecount", "*.filo_line", "*.source_lines", "*.isclosed"],
    ensures={
        "end_of_input": "implies(result is None, old(view) == [] and view == [])",
        "delivers_head": "implies(result is not None, old(view) == [nonnull(result)] + view)",
    },
    raises=[],
    note="reader.get_item() over the ghost view G1 (the concrete queue side is proved in reader_buffers)")

contract("proto:put_item", trusted=True,
    types=dict(self="FortranReaderBase", item="ref"),
    modifies=["view", "*.fifo_item"],
    ensures={"pushed_front": "view == [item] + old(view)"},
    raises=[],
    note="reader.put_item(item) over the ghost view G1 (concrete side: FortranReaderBase.put_item, proved)")

contract("proto:parse_line", trusted=True,
    types=dict(self="ref:Line", cls="cls", parent_cls="any"), returns="ref:Base?",
    modifies=[],
    ensures={"node_is_new_or_cached": "True"},
    raises={"NoMatchError": {}, "*": {}},
    note="item.parse_line(cls, parent_cls): evaluates the string rule; touches neither the reader nor the scopes")

# --- statement branch: a reader and a non-block rule with a match method ---------------------
contract(U + "Base.__new__@stmt",
    types=dict(cls="cls", string="FortranReaderBase", parent_cls="any", _deepcopy="bool"),
    returns="ref:Base?",
    requires={"statement_rule": "cls_has(cls, 'match') and not cls_issub(cls, 'BlockBase')", "no_copy": "not _deepcopy"},
    modifies=["view", "*.fifo_item", "*.linecount", "*.filo_line", "*.source_lines", "*.isclosed", "*.item"],
    calls={"reader.get_item": "proto:get_item", "reader.put_item": "proto:put_item", "item.parse_line": "proto:parse_line",
           "parent_cls.append": "ignore"},
    ensures={
        "no_match_restores": "implies(result is None, view == old(view))",
        "match_consumes_one_item": "implies(result is not None, len(old(view)) > 0 and old(view) == [old(view)[0]] + view and result.item == old(view)[0])",
    },
    raises={"*": {}},
    serves=["C07", "C10", "C12", "C20"],
    note="comments are recognised by isinstance(item, readfortran.Comment), abstracted as an uninterpreted test",
)

# --- deep-copy exit ---------------------------------------------------------------------------
contract(U + "Base.__new__@deepcopy",
    types=dict(cls="cls", string="any", parent_cls="any", _deepcopy="bool"),
    returns="ref:Base?",
    requires={"copying": "_deepcopy"},
    modifies=[],
    calls={"parent_cls.append": "ignore"},
    ensures={
        "fresh_instance": "result is not None and not was_allocated(result) and typeof_is_cls(result, cls)",
    },
    raises=[],
    serves=["C18"],
    note="nothing but object.__new__(cls) happens: no match(), no reader access (empty modifies clause, frame-checked)",
)

# --- U4 / F4: deep-copy protocol of the node classes ------------------------------------------------------
contract(U + "Base.__getnewargs__",
    types=dict(self="Base"), returns="tuple[any,none,bool]",
    ensures={"args": "result[0] == self.string and result[2]"},
    raises=[],
    serves=["C18"],
    note="needs self.string: class invariant HAS_STRING, established by every construction path (Base.__new__ tuple branch, Comment.init, Directive.init)",
)

for _cls in ("Comment", "Directive"):
    contract(F + "%s.__new__@deepcopy" % _cls,
        types=dict(cls="cls", string="any", parent_cls="any", _deepcopy="bool"),
        returns="ref:Base?",
        requires={"copying": "_deepcopy"},
        modifies=[],
        ensures={"fresh_instance": "result is not None and not was_allocated(result) and typeof_is_cls(result, cls)"},
        raises=[],
        serves=["C18"],
        note="Base.__getnewargs__ passes (string, None, True): the third positional parameter must be the deep-copy flag",
    )
    contract(F + "%s.init" % _cls,
        types=dict(self="Base", comment="ref:Comment"),
        modifies=["self.items", "self.item", "self.string"],
        ensures={"has_string": "self.string == comment", "item_kept": "self.item == comment", "text_kept": "self.items == [comment.comment]"},
        raises=[],
        serves=["C11", "C18"],
    )

contract(F + "Comment.__new__@reader",
    types=dict(cls="cls", string="FortranReaderBase", parent_cls="any", _deepcopy="bool"),
    returns="ref:Base?",
    requires={"no_copy": "not _deepcopy"},
    modifies=["view", "*.fifo_item", "*.linecount", "*.filo_line", "*.source_lines", "*.isclosed", "*.items", "*.item", "*.string"],
    calls={"reader.get_item": "proto:get_item", "reader.put_item": "proto:put_item", "Comment": "proto:comment_from_item"},
    ensures={
        "no_match_restores": "implies(result is None, view == old(view))",
        "consumes_one_comment": "implies(result is not None, len(old(view)) > 0 and old(view) == [old(view)[0]] + view "
                                "and typeof_is(old(view)[0], 'Comment') and result.item == old(view)[0])",
        "only_comments": "implies(len(old(view)) > 0 and not typeof_is(old(view)[0], 'Comment'), result is None)",
    },
    raises=[],
    serves=["C11", "C12"],
)

contract("proto:comment_from_item", trusted=True,
    types=dict(cls="cls", string="ref:Comment"), returns="ref:Base",
    modifies=["*.items", "*.item", "*.string"],
    ensures={"wraps": "result.item == string and not was_allocated(result)"},
    raises=[],
    note="Comment(item) for a readfortran.Comment item: the first branch of Comment.__new__ (object.__new__ + init, proved as Comment.init)")


R = "fparser.common.readfortran:"

contract("proto:string_rule", trusted=True,
    types=dict(cls="cls", string="str", parent_cls="any"), returns="ref:Base?", defaults=dict(parent_cls=None),
    modifies=["rule_evals"],
    ensures={"counted": "rule_evals == old(rule_evals) + 1"},
    raises={"NoMatchError": {"counted": "rule_evals == old(rule_evals) + 1"}, "*!NoMatchError": {"counted": "rule_evals == old(rule_evals) + 1"}},
    note="cls(string): evaluation of a string-level rule; touches neither reader nor scopes; counted by the ghost rule_evals")

contract(R + "Line.parse_line",
    types=dict(self="Line", cls="cls", parent_cls="any"), returns="ref:Base?",
    modifies=["self.parse_cache", "rule_evals"],
    calls={"cls": "proto:string_rule"},
    ensures={
        "cached_is_returned": "implies(cls in old(self.parse_cache), result == old(self.parse_cache)[cls] and self.parse_cache == old(self.parse_cache))",
        "cached_costs_nothing": "implies(cls in old(self.parse_cache), rule_evals == old(rule_evals))",
        "at_most_one_evaluation": "rule_evals <= old(rule_evals) + 1",
        "result_is_cached": "cls in self.parse_cache and self.parse_cache[cls] == result",
        "other_entries_kept": "dict_same_except(self.parse_cache, old(self.parse_cache), cls)",
    },
    raises={"*": {"guard_stays": "cls in self.parse_cache", "one_evaluation": "rule_evals == old(rule_evals) + 1 and cls not in old(self.parse_cache)"}},
    serves=["C10", "C20"],
)

contract(U + "Base.get_root",
    types=dict(self="Base"), returns="ref:Base",
    ensures={"is_root": "result.parent is None"},
    raises=[],
    loops={0: dict(invariant={"t": "True"}, types={"current": "ref:Base"})},
    serves=["C10"],
    note="termination needs an acyclic parent chain (not verified: partial correctness)",
)

# --- U2: parent links -------------------------------------------------------------------------------------
contract(U + "_set_parent@flat",
    types=dict(parent_node="ref:Base", items="list[ref:Base?]"),
    modifies=["*.parent"],
    ensures={
        "every_node_reparented": "all(implies(items[k] is not None, items[k].parent == parent_node) for k in range(0, len(items)))",
    },
    raises=[],
    loops={0: dict(invariant={"done_so_far": "all(implies(items[k] is not None, items[k].parent == parent_node) for k in range(0, _k0))"},
                   types={"item": "ref:Base?"})},
    serves=["C10"],
    note="items as a flat sequence of optional nodes (the shape of most match results); nested lists/tuples recurse through the same contract; "
         "a node that already has a (stale) parent from a discarded attempt must be re-parented too",
)

contract(U + "Base.__init__",
    types=dict(self="Base", string="any", parent_cls="any"),
    modifies=["self.parent"],
    ensures={"no_parent_yet": "self.parent is None"},
    raises=[],
    serves=["C10"],
)

# --- U10: what a statement prints in front of its text ----------------------------------------------------
contract(U + "StmtBase.tofortran",
    types=dict(self="StmtBase", tab="str", isfix="bool?"),
    returns="str",
    requires={"free_form": "isfix is None or not isfix"},
    ensures={
        "plain": "implies(self.item is None or ((self.item.label is None or self.item.label == 0) and not given(self.item.name)), squeeze(result) == squeeze(tab + str(self)))",
        "label_then_text": "implies(self.item is not None and self.item.label is not None and self.item.label != 0 and not given(self.item.name), "
                           "squeeze(result) == squeeze(str(self.item.label) + (tab[len(str(self.item.label)):] if tab[len(str(self.item.label)):] != '' else ' ') + str(self)))",
        "name_colon_text": "implies(self.item is not None and (self.item.label is None or self.item.label == 0) and given(self.item.name), "
                           "squeeze(result) == squeeze(tab + self.item.name + ':' + str(self)))",
        "label_name_text": "implies(self.item is not None and self.item.label is not None and self.item.label != 0 and given(self.item.name), "
                           "squeeze(result) == squeeze(str(self.item.label) + (tab[len(str(self.item.label)):] if tab[len(str(self.item.label)):] != '' else ' ') "
                           "+ self.item.name + ':' + str(self)))",
        "statement_text_is_last": "result.endswith(str(self))",
    },
    raises=[],
    serves=["C01", "C02"],
    note="str(self) (the rule's tostr) is uninterpreted here; label and name come from the reader item (R3, R4); texts are compared "
         "without their blanks (indentation and spacing are canonicalisations), the statement text itself comes last verbatim",
)

# --- U9: a block prints every child once, in order ----------------------------------------------------------
contract(U + "BlockBase.tofortran",
    types=dict(self="BlockBase", tab="str", isfix="bool?"),
    returns="str",
    locals=dict(mylist="list[str]"),
    calls={"*.tofortran": "pure:str"},
    requires={"no_hole": "True"},
    ensures={"empty_block_prints_nothing": "implies(len(self.content) == 0, result == '')"},
    ensures_local={
        "one_piece_per_child@ret1": "len(mylist) == len(self.content)",
        "first_child_at_tab@ret1": "mylist[0] == self.content[0].tofortran(tab=tab, isfix=isfix)",
        "middle_children_in_order@ret1": "all(mylist[k] == self.content[k].tofortran(tab=tab + extra_tab, isfix=isfix) for k in range(1, len(self.content) - 1))",
        "last_child_at_tab@ret1": "implies(len(self.content) > 1, mylist[len(mylist) - 1] == self.content[len(self.content) - 1].tofortran(tab=tab, isfix=isfix))",
        "joined_by_newlines@ret1": "result == '\\n'.join(mylist)",
        "body_indented_iff_end_statement@ret1": "extra_tab == ('  ' if typeof_is(self.content[len(self.content) - 1], 'EndStmtBase') else '')",
    },
    raises=[],
    loops={0: dict(seq="mid", invariant={
        "pieces": "len(mylist) == 1 + _k0 and mid == self.content[1:len(self.content) - 1]",
        "first": "mylist[0] == self.content[0].tofortran(tab=tab, isfix=isfix)",
        "in_order": "all(mylist[k] == self.content[k].tofortran(tab=tab + extra_tab, isfix=isfix) for k in range(1, 1 + _k0))",
    })},
    serves=["C01", "C02", "C10", "C11"],
    note="content holds nodes only (start is not None: blocks are built by BlockBase.match, which appends matched nodes)",
)

# --- rule dispatch on a reader: block rules (match(reader) returns the content) and pure alternatives ----------------
# The rule-call protocol G3 (proto:rule_call) is *assumed* wherever a rule is called on a reader.  Here it is proved for
# the dispatch code itself: given that (a) the class's own match(reader) keeps the block protocol (the postcondition
# proved for BlockBase.match: None restores the reader, a tuple accounts for every consumed item by a node of its
# content) and (b) every alternative called keeps G3, the call as a whole keeps G3.  With Base.__new__@stmt (statement
# rules) this makes G3 an induction over the depth of rule calls; what stays assumed is listed in the note.
contract("proto:block_match", trusted=True,
    types=dict(reader="FortranReaderBase"), returns="tuple[list[ref:Base]]?",
    modifies=["view", "*.fifo_item", "*.linecount", "*.filo_line", "*.source_lines", "*.isclosed", "*._children"],
    ensures={
        "restore": "implies(result is None, view == old(view))",
        "order": "implies(result is not None, old(view) == cons(result[0]) + view)",
        "reader_lines_consistent": "implies(old(0 <= reader.linecount and reader.linecount + len(reader.filo_line) == len(reader.source_lines)), 0 <= reader.linecount and reader.linecount + len(reader.filo_line) == len(reader.source_lines))",
        "reader_lines_kept": "implies(old(len(reader.source_lines) > 0 and 0 <= reader.linecount and reader.linecount + len(reader.filo_line) == len(reader.source_lines)), len(reader.source_lines) > 0 and 0 <= reader.linecount and reader.linecount + len(reader.filo_line) == len(reader.source_lines))",
    },
    raises={"NoMatchError": {"restores": "view == old(view)", "reader_lines_consistent": "implies(old(0 <= reader.linecount and reader.linecount + len(reader.filo_line) == len(reader.source_lines)), 0 <= reader.linecount and reader.linecount + len(reader.filo_line) == len(reader.source_lines))"},
            "*!NoMatchError!StopIteration": {}},
    note="cls.match(reader) of a block rule: the clauses 'restore' and 'order' proved for BlockBase.match, to which the block rules delegate")

contract("proto:set_parent_nested", trusted=True,
    types=dict(parent_node="ref:Base", items="any"), modifies=["*.parent"], ensures={}, raises=[],
    note="_set_parent on a match result (tuple of lists): only parent links change (the flat case is proved as _set_parent@flat)")

contract(U + "Base.__new__@rule",
    types=dict(cls="cls", string="FortranReaderBase", parent_cls="any", _deepcopy="bool"),
    returns="ref:Base?",
    locals=dict(result="tuple[list[ref:Base]]?"),
    requires={"block_rule_or_alternatives": "not cls_has(cls, 'match') or cls_issub(cls, 'BlockBase')", "no_copy": "not _deepcopy",
              "block_rules_have_init": "implies(cls_has(cls, 'match'), hasattr(cls, 'init'))",
              # every physical line drawn so far is cached and counted (proved for get_single_line / put_single_line)
              "reader_lines_consistent": "0 <= string.linecount and string.linecount + len(string.filo_line) == len(string.source_lines)"},
    modifies=["view", "*.fifo_item", "*.linecount", "*.filo_line", "*.source_lines", "*.isclosed", "*._children",
              "*.string", "*.item", "*.parent", "*.content"],
    calls={"cls.match": "proto:block_match", "_set_parent": "proto:set_parent_nested", "obj.init": U + "BlockBase.init",
           "subcls": "proto:rule_call", "Base.subclasses.get": "pure:list[cls]", "parent_cls.append": "ignore",
           "freader.is_comment_line": "pure:bool"},
    ensures={
        "no_match_restores": "implies(result is None, view == old(view))",
        "reader_lines_consistent": "0 <= string.linecount and string.linecount + len(string.filo_line) == len(string.source_lines)",
    },
    ensures_local={
        # a node built from the block's own match accounts for the consumed items by its content ...
        "block_node_accounts_for_its_items@ret4": "obj is not None and not was_allocated(obj) and old(view) == cons(obj.content) + view",
        # ... a node handed up from an alternative is that alternative's node (G3 of the callee), every earlier alternative having restored the reader
        "first_matching_alternative_is_returned@ret6": "obj is not None and old(view) == consumed(obj) + view",
    },
    raises={"NoMatchError": {"restores": "view == old(view)", "reader_lines_consistent": "0 <= string.linecount and string.linecount + len(string.filo_line) == len(string.source_lines)"}, "*!NoMatchError!StopIteration": {}},
    loops={0: dict(invariant={"alternatives_so_far_restored": "view == old(view)", "reader_lines_consistent": "0 <= string.linecount and string.linecount + len(string.filo_line) == len(string.source_lines)"}, types={"subcls": "cls"})},
    serves=["C08", "C11", "C12"],
    note="assumed: block rules' match(reader) delegate to BlockBase.match (enumerated by checks/enum_block_table.py); consumed(n) of a block node n is "
         "cons(n.content) (BlockBase.restore_reader, proved, puts back exactly that); len(consumed(n)) > 0; no StopIteration from a rule",
)
