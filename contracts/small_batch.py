"""Small functions: reader delivery wrappers, item predicates, format modes, node accessors, parser factory."""
from pyvc.contracts import contract, spec

R = "fparser.common.readfortran:"
S = "fparser.common.sourceinfo:"
U = "fparser.two.utils:"
F = "fparser.two.Fortran2003:"
P = "fparser.two.parser:"

# R9b: get_item never lets StopIteration out
contract("proto:next_item", trusted=True,
    types=dict(self="FortranReaderBase", ignore_comments="bool?"), returns="ref", defaults=dict(ignore_comments=None),
    modifies=["view", "*.fifo_item", "*.linecount", "*.filo_line", "*.source_lines", "*.isclosed", "*.reader"],
    ensures={"delivers_head": "old(view) == [result] + view"},
    raises={"StopIteration": {"exhausted": "old(view) == [] and view == []"}},
    note="FortranReaderBase.next over the ghost view (its blanket handler turns every other exception into StopIteration)")

contract(R + "FortranReaderBase.get_item",
    types=dict(self="FortranReaderBase", ignore_comments="bool?"), returns="ref?",
    modifies=["view", "*.fifo_item", "*.linecount", "*.filo_line", "*.source_lines", "*.isclosed", "*.reader"],
    calls={"self.next": "proto:next_item"},
    ensures={
        "end_of_input": "implies(result is None, old(view) == [] and view == [])",
        "delivers_head": "implies(result is not None, old(view) == [nonnull(result)] + view)",
    },
    raises=[],
    serves=["C11", "C12"],
)

# R6
contract(R + "Comment.isempty",
    types=dict(self="Comment", ignore_comments="bool"), returns="bool",
    ensures={"ignored_iff_asked": "result == ignore_comments"}, raises=[], serves=["C11"])

contract(R + "Line.isempty",
    types=dict(self="Line", ignore_comments="bool"), returns="bool",
    ensures={"line_with_text_is_not_empty": "implies(self.line != '', not result)",
             "definition": "result == (self.line == '' and self.label is None and self.name is None)"},
    raises=[], serves=["C11", "C12"])

# I2: the four modes partition (is_free, is_strict)
contract(S + "FortranFormat.mode", prop=True,
    types=dict(self="FortranFormat"), returns="str",
    ensures={
        "pyf": "(result == 'pyf') == (self._is_free and self._is_strict)",
        "free": "(result == 'free') == (self._is_free and not self._is_strict)",
        "fix": "(result == 'fix') == (not self._is_free and not self._is_strict)",
        "f77": "(result == 'f77') == (not self._is_free and self._is_strict)",
    },
    raises=[], serves=["C05"])

contract(S + "FortranFormat.__init__",
    types=dict(self="FortranFormat", is_free="bool?", is_strict="bool?", enable_f2py="bool"),
    modifies=["self._is_free", "self._is_strict", "self._f2py_enabled"],
    ensures={"stored": "self._is_free == is_free and self._is_strict == is_strict and self._f2py_enabled == enable_f2py"},
    raises={"Exception": {"none_given": "is_free is None or is_strict is None"}}, serves=["C05"])

# U5
contract(U + "Base.children", prop=True,
    types=dict(self="Base"), returns="any",
    calls={"getattr": "pure:any"},
    ensures={"content_first_then_items": "result == (getattr(self, 'content', None) if getattr(self, 'content', None) is not None else getattr(self, 'items', []))"},
    raises=[], serves=["C10"],
    note="content if set, else items (getattr with default abstracted as a pure function)")

contract(U + "BlockBase.init",
    types=dict(self="BlockBase", content="list[ref:Base]"),
    modifies=["self.content"], ensures={"stored": "self.content == content"}, raises=[], serves=["C10"])

contract(U + "Base.restore_reader",
    types=dict(self="Base", reader="FortranReaderBase"),
    modifies=["view", "*.fifo_item"],
    calls={"reader.put_item": "proto:put_item"},
    requires={"has_item": "self.item is not None"},
    ensures={"item_put_back": "view == [nonnull(self.item)] + old(view)"},
    raises=[], serves=["C12"])

contract(U + "BlockBase.restore_reader",
    types=dict(self="BlockBase", reader="FortranReaderBase"),
    modifies=["view", "*.fifo_item"],
    calls={"*.restore_reader": "proto:restore_reader"},
    ensures={"all_children_put_back_in_order": "view == cons(self.content) + old(view)"},
    raises=[],
    loops={0: dict(invariant={"restoring": "cons(self.content[:len(self.content) - _k0]) + view == cons(self.content) + old(view)"})},
    serves=["C11", "C12"])

# P1
contract(P + "ParserFactory.create",
    types=dict(self="ref", std="str?"), returns="any",
    bind={"SYMBOL_TABLES": "ref:SymbolTables"},
    modifies=["SYMBOL_TABLES._symbol_tables", "SYMBOL_TABLES._current_scope", "scope_stack"],
    calls={"get_module_classes": "pure:list[any]", "self._setup": "ignore", "inspect.getmembers": "pure:list[any]"},
    locals=dict(f2008_cls_members="list[any]", f2008_class_names="list[any]"),
    ensures={"tables_cleared": "all_absent(SYMBOL_TABLES._symbol_tables) and SYMBOL_TABLES._current_scope is None and scope_stack == []"},
    raises={"ValueError": {"bad_std": "std is not None and std != '' and std != 'f2003' and std != 'f2008'",
                           "tables_cleared": "all_absent(SYMBOL_TABLES._symbol_tables) and SYMBOL_TABLES._current_scope is None"}},
    loops={0: dict(invariant={"t": "True"}, modifies=[])},
    serves=["C09", "C17"],
    note="_setup (registry construction) is abstracted here; its result is enumerated by checks/enum_registries.py")

# Generic_Binding.match - "GENERIC [, access-spec] :: generic-spec => binding-name-list" (C02: each part of the text is
# handed on whole to its rule; the defect D69 - one character too many skipped after '=>' - was found by reading and is
# pinned here from the property: the names are everything after the arrow)
F03 = "fparser.two.Fortran2003:"
_GL = "string[7:].lstrip()"
_G2 = _GL + "[" + _GL + ".find('::') + 2:].lstrip()"
contract(F03 + "Generic_Binding.match",
    types=dict(string="str"),
    returns="tuple[ref:Base?,ref:Base,ref:Base]?",
    modifies=["rule_evals"],
    calls={"Access_Spec": "proto:operand_rule", "Generic_Spec": "proto:operand_rule", "Binding_Name_List": "proto:operand_rule"},
    ensures={
        "keyword_must_lead": "implies(string[:7].upper() != 'GENERIC', result is None)",
        "needs_colons_and_arrow": "implies(result is not None, '::' in " + _GL + " and '=>' in " + _G2 + ")",
        "spec_is_the_text_before_the_arrow": "implies(result is not None, rule_text(nonnull(result)[1]) == " + _G2 + "[:" + _G2 + ".find('=>')].rstrip())",
        "names_are_everything_after_the_arrow": "implies(result is not None, rule_text(nonnull(result)[2]) == " + _G2 + "[" + _G2 + ".find('=>') + 2:].lstrip())",
        "access_spec_is_the_text_between_comma_and_colons": "implies(result is not None, (nonnull(result)[0] is not None) == " + _GL + ".startswith(',') and "
            "implies(nonnull(result)[0] is not None, rule_text(nonnull(nonnull(result)[0])) == " + _GL + "[1:" + _GL + ".find('::')].strip()))",
    },
    raises={"*": {}},
    serves=["C02"],
)

# the procedure headers print every part they hold, in the order of the statement (C01, C02; the squeeze form leaves the
# blanks between the parts to the implementation)
_I = lambda k: "str(self.items[%d])" % k            # noqa: E731
_OPT = lambda k, pre, post: "('' if self.items[%d] is None else %r + str(self.items[%d]) + %r)" % (k, pre, k, post)   # noqa: E731
contract(F03 + "Entry_Stmt.tostr",
    types=dict(self="Base"), returns="str",
    requires={"three_items": "len(self.items) == 3"},
    ensures={"every_part_is_printed": "squeeze(result) == squeeze('ENTRY ' + " + _I(0) + " + '(' + " + _OPT(1, "", "") + " + ')' + " + _OPT(2, " ", "") + ")"},
    raises=[], serves=["C01", "C02"])

contract(F03 + "Subroutine_Stmt.tostr",
    types=dict(self="Base"), returns="str",
    requires={"four_items": "len(self.items) == 4"},
    ensures={"every_part_is_printed": "squeeze(result) == squeeze(" + _OPT(0, "", " ") + " + 'SUBROUTINE ' + " + _I(1) + " + " + _OPT(2, "(", ")") + " + " + _OPT(3, " ", "") + ")"},
    raises=[], serves=["C01", "C02"])

contract(F03 + "Function_Stmt.tostr",
    types=dict(self="Base"), returns="str",
    requires={"four_items": "len(self.items) == 4"},
    ensures={"every_part_is_printed": "squeeze(result) == squeeze(" + _OPT(0, "", " ") + " + 'FUNCTION ' + " + _I(1) + " + '(' + " + _OPT(2, "", "") + " + ')' + " + _OPT(3, " ", "") + ")"},
    raises=[], serves=["C01", "C02"])


def _printed(*parts):
    """the text a rule prints, as a contract expression: literal strings, k (item k, always there) and (k, before, after)
    (item k with the text around it, nothing when the item is None)"""
    out = []
    for p in parts:
        if isinstance(p, str):
            out.append(repr(p))
        elif isinstance(p, int):
            out.append(_I(p))
        else:
            out.append(_OPT(*p))
    return "squeeze(result) == squeeze(" + " + ".join(out) + ")"


def _tostr(cls, n, *parts, serves=("C01", "C02")):
    contract(F03 + cls + ".tostr", types=dict(self="Base"), returns="str",
             requires={"item_count": "len(self.items) == %d" % n},
             ensures={"every_part_is_printed": _printed(*parts)}, raises=[], serves=list(serves))


_tostr("Generic_Binding", 3, "GENERIC", (0, ", ", ""), " :: ", 1, " => ", 2)
_tostr("Type_Declaration_Stmt", 3, 0, (1, ", ", ""), " :: ", 2)
_tostr("Initialization", 2, 0, " ", 1)
_tostr("Component_Initialization", 2, 0, " ", 1)
_tostr("Language_Binding_Spec", 1, "BIND(C", (0, ", NAME = ", ""), ")")
_tostr("Intent_Stmt", 2, "INTENT(", 0, ") :: ", 1)
_tostr("Allocate_Stmt", 3, "ALLOCATE(", (0, "", "::"), 1, (2, ", ", ""), ")")
_tostr("Deallocate_Stmt", 2, "DEALLOCATE(", 0, (1, ", ", ""), ")")
_tostr("Pointer_Assignment_Stmt", 3, 0, (1, "(", ")"), " => ", 2)
_tostr("Where_Stmt", 2, "WHERE (", 0, ") ", 1)
_tostr("Masked_Elsewhere_Stmt", 2, "ELSEWHERE(", 0, ")", (1, " ", ""))
_tostr("Forall_Triplet_Spec", 4, 0, " = ", 1, " : ", 2, (3, " : ", ""))
_tostr("If_Then_Stmt", 1, "IF (", 0, ") THEN", serves=("C01", "C02", "C08"))
_tostr("Else_If_Stmt", 2, "ELSE IF (", 0, ") THEN", (1, " ", ""), serves=("C01", "C02", "C08"))
_tostr("Else_Stmt", 1, "ELSE", (0, " ", ""), serves=("C01", "C02", "C08"))
_tostr("If_Stmt", 2, "IF (", 0, ") ", 1)
_tostr("Select_Case_Stmt", 1, "SELECT CASE (", 0, ")", serves=("C01", "C02", "C08"))
_tostr("Case_Stmt", 2, "CASE ", 0, (1, " ", ""), serves=("C01", "C02", "C08"))
_tostr("Select_Type_Stmt", 2, "SELECT TYPE(", (0, "", "=>"), 1, ")", serves=("C01", "C02", "C08"))
_tostr("Goto_Stmt", 1, "GO TO ", 0)
_tostr("Computed_Goto_Stmt", 2, "GO TO (", 0, "), ", 1)
_tostr("Arithmetic_If_Stmt", 4, "IF (", 0, ") ", 1, ", ", 2, ", ", 3)
_tostr("Write_Stmt", 2, "WRITE(", 0, ")", (1, " ", ""))
_tostr("Print_Stmt", 2, "PRINT ", 0, (1, ", ", ""))
_tostr("Block_Data_Stmt", 1, "BLOCK DATA", (0, " ", ""))
_tostr("Procedure_Stmt", 1, "MODULE PROCEDURE ", 0)
_tostr("Call_Stmt", 2, "CALL ", 0, (1, "(", ")"))
_tostr("Suffix", 2, "RESULT(", 0, ")", (1, " ", ""))
_tostr("Return_Stmt", 1, "RETURN", (0, " ", ""))
_tostr("Stmt_Function_Stmt", 3, 0, " (", (1, "", ""), ") = ", 2)
_tostr("Complex_Literal_Constant", 2, "(", 0, ", ", 1, ")")
_tostr("Char_Selector", 2, "(", (0, "LEN = ", ", "), "KIND = ", 1, ")")
_tostr("Type_Attr_Spec", 2, 0, (1, "(", ")"))
_tostr("Type_Param_Def_Stmt", 3, "INTEGER", (0, "", ""), ", ", 1, " :: ", 2)
_tostr("Component_Decl", 4, 0, (1, "(", ")"), (2, "*", ""), (3, " ", ""))
_tostr("Entity_Decl", 4, 0, (1, "(", ")"), (2, "*", ""), (3, " ", ""))
_tostr("Proc_Component_Def_Stmt", 3, "PROCEDURE(", (0, "", ""), "), ", 1, " :: ", 2)
_tostr("Enum_Def_Stmt", 1, 0)
_tostr("Ac_Implied_Do", 2, "(", 0, ", ", 1, ")")
_tostr("Declaration_Type_Spec", 2, 0, "(", 1, ")")
_tostr("Assumed_Size_Spec", 2, (0, "", ", "), (1, "", " : "), "*")
_tostr("Bind_Stmt", 2, 0, " :: ", 1)
_tostr("Data_Stmt_Set", 2, 0, " / ", 1, " /")
_tostr("Data_Implied_Do", 5, "(", 0, ", ", 1, " = ", 2, ", ", 3, (4, ", ", ""), ")")
_tostr("Data_Stmt_Value", 2, 0, " * ", 1)
_tostr("Target_Stmt", 1, "TARGET :: ", 0)
_tostr("Implicit_Stmt", 1, "IMPLICIT ", 0)
_tostr("Letter_Spec", 2, 0, (1, " - ", ""))
_tostr("Equivalence_Set", 2, "(", 0, ", ", 1, ")")
_tostr("Subscript_Triplet", 3, (0, "", ""), ":", (1, " ", ""), (2, " : ", ""), serves=("C01", "C02", "C03"))
_tostr("Where_Construct_Stmt", 1, "WHERE (", 0, ")", serves=("C01", "C02", "C08"))
contract(F03 + "Case_Selector.tostr", types=dict(self="Base"), returns="str",
         requires={"item_count": "len(self.items) == 1"},
         ensures={"default_or_the_ranges_in_brackets": "squeeze(result) == squeeze('DEFAULT' if self.items[0] is None else '(' + str(self.items[0]) + ')')"},
         raises=[], serves=["C01", "C02"])
_tostr("Io_Implied_Do", 2, "(", 0, ", ", 1, ")")
_tostr("Io_Implied_Do_Control", 4, 0, " = ", 1, ", ", 2, (3, ", ", ""))
_tostr("Generic_Spec", 2, 0, "(", 1, ")")
_tostr("Dtio_Generic_Spec", 1, 0)
_tostr("Procedure_Declaration_Stmt", 3, "PROCEDURE(", (0, "", ""), ")", (1, ", ", " ::"), " ", 2)
_tostr("Proc_Attr_Spec", 2, 0, (1, "(", ")"))
_tostr("Alt_Return_Spec", 1, "*", 0)
_tostr("Type_Guard_Stmt", 3, 0, (1, " (", ")"), (2, " ", ""), serves=("C01", "C02", "C08"))

# the opening statements of the block constructs: recognised only with their keywords and one pair of parentheses around
# the rest, whose content goes whole to the rule (C02; C08: no parenthesis is supplied or dropped here)
_IT = "string[2:-4].strip()"
contract(F03 + "If_Then_Stmt.match", types=dict(string="str"), returns="tuple[ref:Base]?", modifies=["rule_evals"],
    calls={"Scalar_Logical_Expr": "proto:operand_rule"},
    ensures={
        "keywords_at_both_ends": "implies(result is not None, string[:2].upper() == 'IF' and string[-4:].upper() == 'THEN')",
        "condition_in_one_pair_of_parentheses": "implies(result is not None, " + _IT + ".startswith('(') and " + _IT + ".endswith(')') and len(" + _IT + ") >= 2)",
        "condition_whole": "implies(result is not None, rule_text(nonnull(result)[0]) == " + _IT + "[1:-1].strip())",
    }, raises={"*": {}}, serves=["C02", "C08"])

_WC = "string[5:].lstrip()"
contract(F03 + "Where_Construct_Stmt.match", types=dict(string="str"), returns="tuple[ref:Base]?", modifies=["rule_evals"],
    calls={"Mask_Expr": "proto:operand_rule"},
    ensures={
        "keyword_leads": "implies(result is not None, string[:5].upper() == 'WHERE')",
        "mask_in_one_pair_of_parentheses": "implies(result is not None, " + _WC + ".startswith('(') and " + _WC + ".endswith(')') and len(" + _WC + ") >= 2)",
        "mask_whole_and_not_empty": "implies(result is not None, rule_text(nonnull(result)[0]) == " + _WC + "[1:-1].strip() and " + _WC + "[1:-1].strip() != '')",
    }, raises={"*": {}}, serves=["C02", "C08"])

_SC = "string[6:].lstrip()[4:].lstrip()"
contract(F03 + "Select_Case_Stmt.match", types=dict(string="str"), returns="tuple[ref:Base]?", modifies=["rule_evals"],
    calls={"Case_Expr": "proto:operand_rule"},
    ensures={
        "keywords_lead": "implies(result is not None, string[:6].upper() == 'SELECT' and string[6:].lstrip()[:4].upper() == 'CASE')",
        "expression_in_one_pair_of_parentheses": "implies(result is not None, " + _SC + ".startswith('(') and " + _SC + ".endswith(')') and len(" + _SC + ") >= 2)",
        "expression_whole": "implies(result is not None, rule_text(nonnull(result)[0]) == " + _SC + "[1:-1].strip())",
    }, raises={"*": {}}, serves=["C02", "C08"])

_STI = _SC + "[1:-1].strip()"
contract(F03 + "Select_Type_Stmt.match", types=dict(string="str"), returns="tuple[ref:Base?,ref:Base]?", modifies=["rule_evals"],
    calls={"Associate_Name": "proto:operand_rule", "Selector": "proto:operand_rule"},
    ensures={
        "keywords_lead": "implies(result is not None, string[:6].upper() == 'SELECT' and string[6:].lstrip()[:4].upper() == 'TYPE')",
        "selector_in_one_pair_of_parentheses": "implies(result is not None, " + _SC + ".startswith('(') and " + _SC + ".endswith(')') and len(" + _SC + ") >= 2)",
        "associate_name_iff_arrow": "implies(result is not None, (nonnull(result)[0] is not None) == ('=>' in " + _STI + "))",
        "without_arrow_the_selector_is_everything": "implies(result is not None and nonnull(result)[0] is None, rule_text(nonnull(result)[1]) == " + _STI + ")",
        "with_arrow_name_before_selector_after": "implies(result is not None and nonnull(result)[0] is not None, "
            "rule_text(nonnull(nonnull(result)[0])) == " + _STI + "[:" + _STI + ".find('=>')].rstrip() and rule_text(nonnull(result)[1]) == " + _STI + "[" + _STI + ".find('=>') + 2:].lstrip())",
    }, raises={"*": {}}, serves=["C02", "C08"])

_EI = "string[4:].lstrip()[2:].lstrip()"
_EIR = _EI + "[" + _EI + ".rfind(')') + 1:].lstrip()"
contract(F03 + "Else_If_Stmt.match", types=dict(string="str"), returns="tuple[ref:Base,ref:Base?]?", modifies=["rule_evals"],
    calls={"Scalar_Logical_Expr": "proto:operand_rule", "If_Construct_Name": "proto:operand_rule"},
    ensures={
        "keywords_lead": "implies(result is not None, string[:4].upper() == 'ELSE' and string[4:].lstrip()[:2].upper() == 'IF')",
        "condition_between_the_first_and_the_last_parenthesis": "implies(result is not None, " + _EI + ".startswith('(') and ')' in " + _EI + " and "
            "rule_text(nonnull(result)[0]) == " + _EI + "[1:" + _EI + ".rfind(')')].strip())",
        "then_follows": "implies(result is not None, " + _EIR + "[:4].upper() == 'THEN')",
        "construct_name_is_the_rest": "implies(result is not None, (nonnull(result)[1] is not None) == (" + _EIR + "[4:].lstrip() != '') and "
            "implies(nonnull(result)[1] is not None, rule_text(nonnull(nonnull(result)[1])) == " + _EIR + "[4:].lstrip()))",
    }, raises={"*": {}}, serves=["C02", "C08"])

_IN = "string[6:].lstrip()"
_INR = _IN + "[" + _IN + ".rfind(')') + 1:].lstrip()"
_INN = "(" + _INR + "[2:].lstrip() if " + _INR + ".startswith('::') else " + _INR + ")"
contract(F03 + "Intent_Stmt.match", types=dict(string="str"), returns="tuple[ref:Base,ref:Base]?", modifies=["rule_evals"],
    calls={"Intent_Spec": "proto:operand_rule", "Dummy_Arg_Name_List": "proto:operand_rule"},
    ensures={
        "keyword_leads": "implies(result is not None, string[:6].upper() == 'INTENT')",
        "spec_between_the_first_and_the_last_parenthesis": "implies(result is not None, " + _IN + ".startswith('(') and ')' in " + _IN + " and "
            "rule_text(nonnull(result)[0]) == " + _IN + "[1:" + _IN + ".rfind(')')].strip() and rule_text(nonnull(result)[0]) != '')",
        "names_are_the_rest_after_optional_colons": "implies(result is not None, rule_text(nonnull(result)[1]) == " + _INN + " and " + _INN + " != '')",
    }, raises={"*": {}}, serves=["C02"])

_CG = "string[2:].lstrip()[2:].lstrip()"
_CGR = _CG + "[" + _CG + ".find(')') + 1:].lstrip()"
_CGE = "(" + _CGR + "[1:].lstrip() if " + _CGR + ".startswith(',') else " + _CGR + ")"
contract(F03 + "Computed_Goto_Stmt.match", types=dict(string="str"), returns="tuple[ref:Base,ref:Base]?", modifies=["rule_evals"],
    calls={"Label_List": "proto:operand_rule", "Scalar_Int_Expr": "proto:operand_rule"},
    ensures={
        "keywords_lead": "implies(result is not None, string[:2].upper() == 'GO' and string[2:].lstrip()[:2].upper() == 'TO')",
        "labels_up_to_the_first_closing_parenthesis": "implies(result is not None, " + _CG + ".startswith('(') and ')' in " + _CG + " and "
            "rule_text(nonnull(result)[0]) == " + _CG + "[1:" + _CG + ".find(')')].strip() and rule_text(nonnull(result)[0]) != '')",
        "expression_is_the_rest_after_an_optional_comma": "implies(result is not None, rule_text(nonnull(result)[1]) == " + _CGE + " and " + _CGE + " != '')",
    }, raises={"*": {}}, serves=["C02"])

_BD = "string[5:].lstrip()[4:].lstrip()"
contract(F03 + "Block_Data_Stmt.match", types=dict(string="str"), returns="tuple[ref:Base?]?", modifies=["rule_evals"],
    calls={"Block_Data_Name": "proto:operand_rule"},
    ensures={
        "keywords_lead": "implies(result is not None, string[:5].upper() == 'BLOCK' and string[5:].lstrip()[:4].upper() == 'DATA')",
        "name_is_the_rest": "implies(result is not None, (nonnull(result)[0] is not None) == (" + _BD + " != '') and "
            "implies(nonnull(result)[0] is not None, rule_text(nonnull(nonnull(result)[0])) == " + _BD + "))",
    }, raises={"*": {}}, serves=["C02"])

_PS = "(string[6:].lstrip() if string[:6].upper() == 'MODULE' else string)"
contract(F03 + "Procedure_Stmt.match", types=dict(string="str"), returns="tuple[ref:Base]?", modifies=["rule_evals"],
    calls={"Procedure_Name_List": "proto:operand_rule"},
    ensures={
        "keyword_after_optional_module": "implies(result is not None, " + _PS + "[:9].upper() == 'PROCEDURE')",
        "names_are_the_rest": "implies(result is not None, rule_text(nonnull(result)[0]) == " + _PS + "[9:].lstrip())",
    }, raises={"*": {}}, serves=["C02"])

_LB = "string[4:].lstrip()"
_LBI = _LB + "[1:-1].strip()"
_LBC = _LBI + "[1:].lstrip()"
_LBN = _LBC + "[1:].lstrip()"
contract(F03 + "Language_Binding_Spec.match", types=dict(string="str"), returns="tuple[ref:Base?]?", modifies=["rule_evals"],
    calls={"Scalar_Char_Initialization_Expr": "proto:operand_rule"},
    ensures={
        "bind_c_in_one_pair_of_parentheses": "implies(result is not None, string[:4].upper() == 'BIND' and " + _LB + ".startswith('(') and " + _LB + ".endswith(')') and "
            "len(" + _LB + ") >= 2 and " + _LBI + "[:1].upper() == 'C')",
        "no_name_only_if_nothing_follows_c": "implies(result is not None, (nonnull(result)[0] is None) == (" + _LBC + " == ''))",
        "name_is_everything_after_the_equals_sign": "implies(result is not None and nonnull(result)[0] is not None, " + _LBC + ".startswith(',') and " + _LBN + "[:4].upper() == 'NAME' and "
            + _LBN + "[4:].lstrip().startswith('=') and rule_text(nonnull(nonnull(result)[0])) == " + _LBN + "[4:].lstrip()[1:].lstrip())",
    }, raises={"*": {}}, serves=["C02", "C08"])

contract(F03 + "Implicit_Spec.match", types=dict(string="str"), returns="tuple[ref:Base,ref:Base]?", modifies=["rule_evals"],
    calls={"Declaration_Type_Spec": "proto:operand_rule", "Letter_Spec_List": "proto:operand_rule"},
    ensures={
        "letters_in_the_last_pair_of_parentheses": "implies(result is not None, string.endswith(')') and '(' in string and "
            "rule_text(nonnull(result)[1]) == string[string.rfind('(') + 1:-1].strip() and rule_text(nonnull(result)[1]) != '')",
        "type_is_everything_before": "implies(result is not None, rule_text(nonnull(result)[0]) == string[:string.rfind('(')].rstrip() and rule_text(nonnull(result)[0]) != '')",
    }, raises={"*": {}}, serves=["C02"])

for _cls, _kw in (("Backspace_Stmt", "BACKSPACE"), ("Endfile_Stmt", "ENDFILE"), ("Rewind_Stmt", "REWIND"), ("Flush_Stmt", "FLUSH")):
    _PL = "string[%d:].lstrip()" % len(_kw)
    contract(F03 + _cls + ".match", types=dict(string="str"), returns="tuple[ref:Base?,ref:Base?]?", modifies=["rule_evals"],
        calls={"File_Unit_Number": "proto:operand_rule", "Position_Spec_List": "proto:operand_rule", "Flush_Spec_List": "proto:operand_rule"},
        ensures={
            "keyword_leads": "implies(result is not None, string[:%d].upper() == %r)" % (len(_kw), _kw),
            "spec_list_exactly_when_parenthesised": "implies(result is not None, (nonnull(result)[1] is not None) == " + _PL + ".startswith('(') and "
                "(nonnull(result)[0] is None) == " + _PL + ".startswith('('))",
            "spec_list_is_the_content_of_the_parentheses": "implies(result is not None and nonnull(result)[1] is not None, " + _PL + ".endswith(')') and "
                "rule_text(nonnull(nonnull(result)[1])) == " + _PL + "[1:-1].strip())",
            "unit_number_is_the_rest": "implies(result is not None and nonnull(result)[0] is not None, rule_text(nonnull(nonnull(result)[0])) == " + _PL + ")",
        }, raises={"*": {}}, serves=["C02", "C08"])

_SF = "string[:string.find('=')].rstrip()"
contract(F03 + "Stmt_Function_Stmt.match", types=dict(string="str"), returns="tuple[ref:Base,ref:Base?,ref:Base]?", modifies=["rule_evals"],
    calls={"Function_Name": "proto:operand_rule", "Dummy_Arg_Name_List": "proto:operand_rule", "Scalar_Expr": "proto:operand_rule"},
    ensures={
        "expression_is_everything_after_the_first_equals_sign": "implies(result is not None, '=' in string and rule_text(nonnull(result)[2]) == string[string.find('=') + 1:].lstrip() and "
            "rule_text(nonnull(result)[2]) != '')",
        "name_before_the_first_parenthesis": "implies(result is not None, " + _SF + ".endswith(')') and '(' in " + _SF + " and "
            "rule_text(nonnull(result)[0]) == " + _SF + "[:" + _SF + ".find('(')].rstrip() and rule_text(nonnull(result)[0]) != '')",
        "arguments_are_the_content_of_the_parentheses": "implies(result is not None, (nonnull(result)[1] is not None) == (" + _SF + "[" + _SF + ".find('(') + 1:-1].strip() != '') and "
            "implies(nonnull(result)[1] is not None, rule_text(nonnull(nonnull(result)[1])) == " + _SF + "[" + _SF + ".find('(') + 1:-1].strip()))",
    }, raises={"*": {}}, serves=["C02"])

# Suffix.match - "RESULT(name) [binding]" or "binding RESULT(name)": both parts go to their rules whole (C02; the printed
# order is always result first - KF-C02-D68 - which is tostr's business, not match's)
_SU = "string[6:].lstrip()"
_SUR = _SU + "[" + _SU + ".find(')') + 1:].lstrip()"
_SB = "string[:string.rfind('(')].rstrip()"
contract(F03 + "Suffix.match", types=dict(string="str"), returns="tuple[ref:Base,ref:Base?]?", modifies=["rule_evals"],
    calls={"Result_Name": "proto:operand_rule", "Proc_Language_Binding_Spec": "proto:operand_rule"},
    ensures={
        "result_first": "implies(result is not None and string[:6].upper() == 'RESULT', " + _SU + ".startswith('(') and ')' in " + _SU + " and "
            "rule_text(nonnull(result)[0]) == " + _SU + "[1:" + _SU + ".find(')')].strip() and rule_text(nonnull(result)[0]) != '' and "
            "(nonnull(result)[1] is not None) == (" + _SUR + " != '') and implies(nonnull(result)[1] is not None, rule_text(nonnull(nonnull(result)[1])) == " + _SUR + "))",
        "binding_first": "implies(result is not None and string[:6].upper() != 'RESULT', string.endswith(')') and '(' in string and "
            "rule_text(nonnull(result)[0]) == string[string.rfind('(') + 1:-1].strip() and rule_text(nonnull(result)[0]) != '' and " + _SB + "[-6:].upper() == 'RESULT' and "
            "nonnull(result)[1] is not None and rule_text(nonnull(nonnull(result)[1])) == " + _SB + "[:-6].rstrip() and " + _SB + "[:-6].rstrip() != '')",
    }, raises={"*": {}}, serves=["C02"])

# Include_Stmt.match - an INCLUDE line that the reader did not resolve: the file name is the text between the quotes,
# unchanged (C13: unresolved includes are kept as they are)
_INC = "string.strip()[7:].strip()"
contract(F03 + "Include_Stmt.match", types=dict(string="str"), returns="tuple[ref:Base]?", modifies=["rule_evals"],
    calls={"Include_Filename": "proto:operand_rule", "InternalError": "pure:any"},
    ensures={
        "keyword_leads": "implies(result is not None, string.strip()[:7].upper() == 'INCLUDE')",
        "name_in_matching_quotes": "implies(result is not None, len(" + _INC + ") >= 3 and " + _INC + "[0] == " + _INC + "[-1] and (" + _INC + "[0] == \"'\" or " + _INC + "[0] == '\"'))",
        "file_name_is_the_text_between_the_quotes": "implies(result is not None, rule_text(nonnull(result)[0]) == " + _INC + "[1:-1])",
    }, raises={"*": {}}, serves=["C02", "C13"])

contract(F03 + "Data_Stmt.tostr", types=dict(self="Base"), returns="str",
    ensures={"every_set_in_order": "squeeze(result) == squeeze('DATA ' + ', '.join([str(x) for x in self.items]))"},
    raises=[], serves=["C01", "C02"])

contract(F03 + "Length_Selector.tostr", types=dict(self="Base"), returns="str",
    requires={"item_count": "len(self.items) == 2 or len(self.items) == 3"},
    ensures={"every_part_is_printed": "squeeze(result) == squeeze(str(self.items[0]) + str(self.items[1]) if len(self.items) == 2 else "
                                      "str(self.items[0]) + 'LEN = ' + str(self.items[1]) + str(self.items[2]))"},
    raises=[], serves=["C01", "C02"])

contract(F03 + "Enumerator.match", types=dict(string="str"), returns="tuple[ref:Base,str,ref:Base]?", modifies=["rule_evals"],
    calls={"Named_Constant": "proto:operand_rule", "Scalar_Int_Initialization_Expr": "proto:operand_rule"},
    ensures={
        "needs_an_equals_sign": "implies('=' not in string, result is None)",
        "name_before_value_after_the_first_equals_sign": "implies(result is not None, rule_text(nonnull(result)[0]) == string[:string.find('=')].rstrip() and "
            "nonnull(result)[1] == '=' and rule_text(nonnull(result)[2]) == string[string.find('=') + 1:].lstrip())",
    }, raises={"*": {}}, serves=["C02"])

contract(F03 + "Type_Param_Decl.match", types=dict(string="str"), returns="tuple[ref:Base,str,ref:Base]?", modifies=["rule_evals"],
    calls={"Type_Param_Name": "proto:operand_rule", "Scalar_Int_Initialization_Expr": "proto:operand_rule"},
    ensures={
        "needs_an_equals_sign": "implies('=' not in string, result is None)",
        "name_before_value_after_the_first_equals_sign": "implies(result is not None, rule_text(nonnull(result)[0]) == string[:string.find('=')].rstrip() and "
            "nonnull(result)[1] == '=' and rule_text(nonnull(result)[2]) == string[string.find('=') + 1:].lstrip() and "
            "rule_text(nonnull(result)[0]) != '' and rule_text(nonnull(result)[2]) != '')",
    }, raises={"*": {}}, serves=["C02"])

_BSL = "(string[:string.find('::')] if '::' in string else string[:string.find(')')])"
_BSR = "(string[string.find('::') + 2:] if '::' in string else string[string.find(')') + 1:])"
contract(F03 + "Bind_Stmt.match", types=dict(string="str"), returns="tuple[ref:Base,ref:Base]?", modifies=["rule_evals"],
    calls={"Language_Binding_Spec": "proto:operand_rule", "Bind_Entity_List": "proto:operand_rule"},
    ensures={
        "needs_colons_or_a_closing_parenthesis": "implies('::' not in string and ')' not in string, result is None)",
        "binding_before_entities_after": "implies(result is not None, rule_text(nonnull(result)[0]) == " + _BSL + ".rstrip() and rule_text(nonnull(result)[1]) == " + _BSR + ".lstrip() and "
            "rule_text(nonnull(result)[0]) != '' and rule_text(nonnull(result)[1]) != '')",
    }, raises={"*": {}}, serves=["C02"])
