"""Small functions: reader delivery wrappers, item predicates, format modes, node accessors, parser factory."""
from pyvc.contracts import contract, spec

R = "fparser.common.readfortran:"
S = "fparser.common.sourceinfo:"
U = "fparser.two.utils:"
F = "fparser.two.Fortran2003:"
P = "fparser.two.parser:"

# R9b: get_item never lets StopIteration out
contract("proto:next_item", trusted=True,
    types=dict(self="FortranReaderBase", ignore_comments="bool?"), returns="ref", defaults=dict(ignore_comments=None),
    modifies=["view", "*.fifo_item", "*.linecount", "*.filo_line", "*.source_lines", "*.isclosed", "*.reader"],
    ensures={"delivers_head": "old(view) == [result] + view"},
    raises={"StopIteration": {"exhausted": "old(view) == [] and view == []"}},
    note="FortranReaderBase.next over the ghost view (its blanket handler turns every other exception into StopIteration)")

contract(R + "FortranReaderBase.get_item",
    types=dict(self="FortranReaderBase", ignore_comments="bool?"), returns="ref?",
    modifies=["view", "*.fifo_item", "*.linecount", "*.filo_line", "*.source_lines", "*.isclosed", "*.reader"],
    calls={"self.next": "proto:next_item"},
    ensures={
        "end_of_input": "implies(result is None, old(view) == [] and view == [])",
        "delivers_head": "implies(result is not None, old(view) == [nonnull(result)] + view)",
    },
    raises=[],
    serves=["C11", "C12"],
)

# R6
contract(R + "Comment.isempty",
    types=dict(self="Comment", ignore_comments="bool"), returns="bool",
    ensures={"ignored_iff_asked": "result == ignore_comments"}, raises=[], serves=["C11"])

contract(R + "Line.isempty",
    types=dict(self="Line", ignore_comments="bool"), returns="bool",
    ensures={"line_with_text_is_not_empty": "implies(self.line != '', not result)",
             "definition": "result == (self.line == '' and self.label is None and self.name is None)"},
    raises=[], serves=["C11", "C12"])

# I2: the four modes partition (is_free, is_strict)
contract(S + "FortranFormat.mode", prop=True,
    types=dict(self="FortranFormat"), returns="str",
    ensures={
        "pyf": "(result == 'pyf') == (self._is_free and self._is_strict)",
        "free": "(result == 'free') == (self._is_free and not self._is_strict)",
        "fix": "(result == 'fix') == (not self._is_free and not self._is_strict)",
        "f77": "(result == 'f77') == (not self._is_free and self._is_strict)",
    },
    raises=[], serves=["C05"])

contract(S + "FortranFormat.__init__",
    types=dict(self="FortranFormat", is_free="bool?", is_strict="bool?", enable_f2py="bool"),
    modifies=["self._is_free", "self._is_strict", "self._f2py_enabled"],
    ensures={"stored": "self._is_free == is_free and self._is_strict == is_strict and self._f2py_enabled == enable_f2py"},
    raises={"Exception": {"none_given": "is_free is None or is_strict is None"}}, serves=["C05"])

# U5
contract(U + "Base.children", prop=True,
    types=dict(self="Base"), returns="any",
    calls={"getattr": "pure:any"},
    ensures={"content_first_then_items": "result == (getattr(self, 'content', None) if getattr(self, 'content', None) is not None else getattr(self, 'items', []))"},
    raises=[], serves=["C10"],
    note="content if set, else items (getattr with default abstracted as a pure function)")

contract(U + "BlockBase.init",
    types=dict(self="BlockBase", content="list[ref:Base]"),
    modifies=["self.content"], ensures={"stored": "self.content == content"}, raises=[], serves=["C10"])

contract(U + "Base.restore_reader",
    types=dict(self="Base", reader="FortranReaderBase"),
    modifies=["view", "*.fifo_item"],
    calls={"reader.put_item": "proto:put_item"},
    requires={"has_item": "self.item is not None"},
    ensures={"item_put_back": "view == [nonnull(self.item)] + old(view)"},
    raises=[], serves=["C12"])

contract(U + "BlockBase.restore_reader",
    types=dict(self="BlockBase", reader="FortranReaderBase"),
    modifies=["view", "*.fifo_item"],
    calls={"*.restore_reader": "proto:restore_reader"},
    ensures={"all_children_put_back_in_order": "view == cons(self.content) + old(view)"},
    raises=[],
    loops={0: dict(invariant={"restoring": "cons(self.content[:len(self.content) - _k0]) + view == cons(self.content) + old(view)"})},
    serves=["C11", "C12"])

# P1
contract(P + "ParserFactory.create",
    types=dict(self="ref", std="str?"), returns="any",
    bind={"SYMBOL_TABLES": "ref:SymbolTables"},
    modifies=["SYMBOL_TABLES._symbol_tables", "SYMBOL_TABLES._current_scope", "scope_stack"],
    calls={"get_module_classes": "pure:list[any]", "self._setup": "ignore", "inspect.getmembers": "pure:list[any]"},
    locals=dict(f2008_cls_members="list[any]", f2008_class_names="list[any]"),
    ensures={"tables_cleared": "all_absent(SYMBOL_TABLES._symbol_tables) and SYMBOL_TABLES._current_scope is None and scope_stack == []"},
    raises={"ValueError": {"bad_std": "std is not None and std != '' and std != 'f2003' and std != 'f2008'",
                           "tables_cleared": "all_absent(SYMBOL_TABLES._symbol_tables) and SYMBOL_TABLES._current_scope is None"}},
    loops={0: dict(invariant={"t": "True"}, modifies=[])},
    serves=["C09", "C17"],
    note="_setup (registry construction) is abstracted here; its result is enumerated by checks/enum_registries.py")
