"""[U] what the generic rule bases print (C01, C02): every constituent, in order, with the separators of the rule.

The clauses compare texts with their blanks removed (squeeze): spacing is one of the canonicalisations the properties allow,
what must not happen is a constituent or separator token dropped, duplicated, reordered or invented.

str(x) of a constituent is uninterpreted (the constituent's own tostr); the contracts pin how a node composes them.
The arity of `items` is the shape returned by the class's match (see binary_op.py); it is a precondition here."""
from pyvc.contracts import contract

U = "fparser.two.utils:"

contract(U + "UnaryOpBase.tostr",
    types=dict(self="Base"), returns="str",
    requires={"two_items": "len(self.items) == 2"},
    ensures={"op_blank_operand": "squeeze(result) == squeeze(str(self.items[0]) + ' ' + str(self.items[1]))"},
    raises=[], serves=["C01", "C02"])

contract(U + "BinaryOpBase.tostr",
    types=dict(self="Base"), returns="str",
    requires={"three_items": "len(self.items) == 3"},
    ensures={"lhs_op_rhs": "squeeze(result) == squeeze(str(self.items[0]) + ' ' + str(self.items[1]) + ' ' + str(self.items[2]))"},
    raises=[], serves=["C01", "C02"])

contract(U + "SeparatorBase.tostr",
    types=dict(self="Base"), returns="str",
    requires={"two_items": "len(self.items) == 2"},
    ensures={
        "both": "implies(self.items[0] is not None and self.items[1] is not None, squeeze(result) == squeeze(str(self.items[0]) + ' : ' + str(self.items[1])))",
        "lhs_only": "implies(self.items[0] is not None and self.items[1] is None, squeeze(result) == squeeze(str(self.items[0]) + ' :'))",
        "rhs_only": "implies(self.items[0] is None and self.items[1] is not None, squeeze(result) == squeeze(': ' + str(self.items[1])))",
        "neither": "implies(self.items[0] is None and self.items[1] is None, squeeze(result) == squeeze(':'))",
    },
    raises=[], serves=["C01", "C02"])

contract(U + "KeywordValueBase.tostr",
    types=dict(self="Base"), returns="str",
    requires={"two_items": "len(self.items) == 2"},
    ensures={
        "value_only": "implies(self.items[0] is None, squeeze(result) == squeeze(str(self.items[1])))",
        "keyword_equals_value": "implies(self.items[0] is not None, squeeze(result) == squeeze(str(self.items[0]) + ' = ' + str(self.items[1])))",
    },
    raises=[], serves=["C01", "C02"])

contract(U + "CallBase.tostr",
    types=dict(self="Base"), returns="str",
    requires={"two_items": "len(self.items) == 2"},
    ensures={
        "empty_parentheses": "implies(self.items[1] is None, squeeze(result) == squeeze(str(self.items[0]) + '()'))",
        "designator_then_arguments": "implies(self.items[1] is not None, squeeze(result) == squeeze(str(self.items[0]) + '(' + str(self.items[1]) + ')'))",
    },
    raises=[], serves=["C01", "C02"])

contract(U + "NumberBase.tostr",
    types=dict(self="Base"), returns="str",
    requires={"two_items": "len(self.items) == 2"},
    ensures={
        "no_kind": "implies(self.items[1] is None, squeeze(result) == squeeze(str(self.items[0])))",
        "value_underscore_kind": "implies(self.items[1] is not None, squeeze(result) == squeeze(str(self.items[0]) + '_' + str(self.items[1])))",
    },
    raises=[], serves=["C01", "C02"])

contract(U + "EndStmtBase.tostr",
    types=dict(self="Base"), returns="str",
    requires={"two_items": "len(self.items) == 2"},
    ensures={
        "end_type_name": "implies(self.items[1] is not None, squeeze(result) == squeeze('END ' + str(self.items[0]) + ' ' + str(self.items[1])))",
        "end_type": "implies(self.items[1] is None and self.items[0] is not None, squeeze(result) == squeeze('END ' + str(self.items[0])))",
        "bare_end": "implies(self.items[1] is None and self.items[0] is None, squeeze(result) == squeeze('END'))",
    },
    raises=[], serves=["C01", "C02"])

contract(U + "StringBase.tostr",
    types=dict(self="Base"), returns="str",
    ensures={"the_string": "result == str(self.string)"},
    raises=[], serves=["C01", "C02"])

contract(U + "BracketBase.tostr",
    types=dict(self="Base"), returns="str",
    ensures={
        "empty_brackets": "implies(self.items[1] is None, squeeze(result) == squeeze(str(self.items[0]) + str(self.items[2])))",
        "left_content_right": "implies(self.items[1] is not None, squeeze(result) == squeeze(str(self.items[0]) + str(self.items[1]) + str(self.items[2])))",
        "three_items_with_brackets": "len(self.items) == 3",
    },
    raises={"InternalError": {"malformed_node": "len(self.items) != 3 or not self.items[0] or not self.items[2]"}},
    serves=["C01", "C02"])

contract(U + "SequenceBase.tostr",
    types=dict(self="SequenceBase"), returns="str",
    ensures={
        # every item, in order, separated by the rule's separator (', ' for a comma, blanks around anything but a blank)
        "items_in_order_with_separator":
            "squeeze(result) == squeeze((', ' if self.separator == ',' else ' ' if self.separator == ' ' else ' ' + self.separator + ' ').join([str(x) for x in self.items]))",
    },
    raises=[], serves=["C01", "C02"])
