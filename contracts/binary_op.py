"""U11a: BinaryOpBase.match - which operator occurrence splits the text, which rule gets which side (C03)."""
from pyvc.contracts import contract, spec

U = "fparser.two.utils:"

# abstract content of the helpers (uninterpreted): string_replace_map(string) = (srm_line, repmap), repmap a pure map within one call;
# Pattern.rsplit / lsplit (line) = None or (l, m, r)
spec("srm_line", "s:str", "str", None)
spec("split_some", "p:ref, line:str, right:bool", "bool", None)
spec("split_l", "p:ref, line:str, right:bool", "str", None)
spec("split_m", "p:ref, line:str, right:bool", "str", None)
spec("split_r", "p:ref, line:str, right:bool", "str", None)
spec("rule_text", "o:ref", "str", None)      # the text a string-level rule was applied to when it built node o
spec("rule_cls", "o:ref", "cls", None)       # the rule class that was asked for

contract("proto:string_replace_map", trusted=True,
    types=dict(line="str"), returns="tuple[str,any]", modifies=[],
    ensures={"line": "result[0] == srm_line(line)"}, raises=[],
    note="string_replace_map(string): (abstracted text, inverse map); its inverse property is the bounded contract S5")

contract("proto:pattern_split@right", trusted=True,
    types=dict(self="ref", string="str"), returns="tuple[str,str,str]?", modifies=[],
    ensures={"abstract": "(result is not None) == split_some(self, string, True) and implies(result is not None, "
                         "nonnull(result)[0] == split_l(self, string, True) and nonnull(result)[1] == split_m(self, string, True) and nonnull(result)[2] == split_r(self, string, True))"},
    raises=[], note="Pattern.rsplit(line): split at the right-most occurrence of the operator pattern (decided by the bounded expression check)")

contract("proto:pattern_split@left", trusted=True,
    types=dict(self="ref", string="str"), returns="tuple[str,str,str]?", modifies=[],
    ensures={"abstract": "(result is not None) == split_some(self, string, False) and implies(result is not None, "
                         "nonnull(result)[0] == split_l(self, string, False) and nonnull(result)[1] == split_m(self, string, False) and nonnull(result)[2] == split_r(self, string, False))"},
    raises=[], note="Pattern.lsplit(line): split at the left-most occurrence")

contract("proto:operand_rule", trusted=True,
    types=dict(cls="cls", string="str"), returns="ref:Base", modifies=["rule_evals"],
    ensures={"built_from": "rule_text(result) == string and rule_cls(result) == cls", "new": "not was_allocated(result)"},
    raises={"NoMatchError": {}, "*!NoMatchError": {}},
    note="cls(text) for an operand: a node of that rule built from exactly that text, or NoMatchError")

OPERANDS = ("rule_cls(nonnull(result)[0]) == lhs_cls and rule_cls(nonnull(result)[2]) == rhs_cls and "
            "rule_text(nonnull(result)[0]) == repmap(split_l(op_pattern, srm_line(string), right).rstrip()) and "
            "rule_text(nonnull(result)[2]) == repmap(split_r(op_pattern, srm_line(string), right).lstrip())")

contract(U + "BinaryOpBase.match@pattern",
    types=dict(lhs_cls="cls", op_pattern="ref", rhs_cls="cls", string="str", right="bool", exclude_op_pattern="ref?"),
    defaults=dict(right=True, exclude_op_pattern=None),
    returns="tuple[ref:Base,str,ref:Base]?",
    modifies=["rule_evals"],
    calls={"string_replace_map": "proto:string_replace_map", "op_pattern.rsplit": "proto:pattern_split@right", "op_pattern.lsplit": "proto:pattern_split@left",
           "lhs_cls": "proto:operand_rule", "rhs_cls": "proto:operand_rule", "repmap": "pure:str",
           "exclude_op_pattern.match": "pure:any"},
    ensures={
        # the side of the chosen occurrence decides the grouping: right-most for left-associative levels, left-most for '**'
        "no_occurrence_no_match": "implies(not split_some(op_pattern, srm_line(string), right), result is None)",
        "each_side_to_its_rule": "implies(result is not None, " + OPERANDS + ")",
        "operator_normalised": "implies(result is not None, nonnull(result)[1] == split_m(op_pattern, srm_line(string), right).upper().replace(' ', ''))",
        "excluded_operator_no_match": "implies(result is not None and exclude_op_pattern is not None, "
                                      "not exclude_op_pattern.match(split_m(op_pattern, srm_line(string), right).upper()))",
        "both_sides_needed": "implies(result is not None, split_l(op_pattern, srm_line(string), right).rstrip() != '' and split_r(op_pattern, srm_line(string), right).lstrip() != '')",
        "declines_only_for_these_reasons": "implies(split_some(op_pattern, srm_line(string), right) and split_l(op_pattern, srm_line(string), right).rstrip() != '' "
                                           "and split_r(op_pattern, srm_line(string), right).lstrip() != '' and (exclude_op_pattern is None or "
                                           "not exclude_op_pattern.match(split_m(op_pattern, srm_line(string), right).upper())), result is not None)",
    },
    raises={"*": {}},
    serves=["C03"],
)

CUT = "(srm_line(string).rfind(op_pattern) if right else srm_line(string).find(op_pattern))"
contract(U + "BinaryOpBase.match@str",
    types=dict(lhs_cls="cls", op_pattern="str", rhs_cls="cls", string="str", right="bool", exclude_op_pattern="ref?"),
    defaults=dict(right=True, exclude_op_pattern=None),
    returns="tuple[ref:Base,str,ref:Base]?",
    requires={"operator_not_empty": "op_pattern != ''"},
    modifies=["rule_evals"],
    calls={"string_replace_map": "proto:string_replace_map", "lhs_cls": "proto:operand_rule", "rhs_cls": "proto:operand_rule",
           "repmap": "pure:str", "exclude_op_pattern.match": "pure:any"},
    ensures={
        "no_occurrence_no_match": "implies(op_pattern not in srm_line(string), result is None)",
        # the cut is at the last occurrence (right=True) or the first one (right=False) of the operator text
        "each_side_to_its_rule": "implies(result is not None, rule_cls(nonnull(result)[0]) == lhs_cls and rule_cls(nonnull(result)[2]) == rhs_cls and "
                                 "rule_text(nonnull(result)[0]) == repmap(srm_line(string)[:" + CUT + "].rstrip()) and "
                                 "rule_text(nonnull(result)[2]) == repmap(srm_line(string)[" + CUT + " + len(op_pattern):].lstrip()))",
        "operator_kept": "implies(result is not None, nonnull(result)[1] == op_pattern.replace(' ', ''))",
        "both_sides_needed": "implies(result is not None, srm_line(string)[:" + CUT + "].rstrip() != '' and srm_line(string)[" + CUT + " + len(op_pattern):].lstrip() != '')",
    },
    raises={"*": {}},
    serves=["C03"],
)

contract(U + "UnaryOpBase.match",
    types=dict(op_pattern="regex", rhs_cls="cls", string="str", exclude_op_pattern="ref?"),
    defaults=dict(exclude_op_pattern=None),
    returns="tuple[str,ref:Base]?",
    modifies=["rule_evals"],
    calls={"rhs_cls": "proto:operand_rule", "exclude_op_pattern.match": "pure:any"},
    ensures={
        "operator_must_lead": "implies(not re_matched(op_pattern, string), result is None)",
        "operand_is_the_rest": "implies(result is not None, rule_cls(nonnull(result)[1]) == rhs_cls and "
                               "rule_text(nonnull(result)[1]) == string[re_end(op_pattern, string, 0):].lstrip() and "
                               "string[re_end(op_pattern, string, 0):].lstrip() != '')",
        "operator_normalised": "implies(result is not None, nonnull(result)[0] == string[:re_end(op_pattern, string, 0)].rstrip().upper())",
        "excluded_operator_no_match": "implies(result is not None and exclude_op_pattern is not None, "
                                      "not exclude_op_pattern.match(string[:re_end(op_pattern, string, 0)].rstrip().upper()))",
        # completeness: nothing but a missing operator, an empty operand or an excluded operator makes it decline
        "declines_only_for_these_reasons": "implies(re_matched(op_pattern, string) and string[re_end(op_pattern, string, 0):].lstrip() != '' and "
                                           "(exclude_op_pattern is None or not exclude_op_pattern.match(string[:re_end(op_pattern, string, 0)].rstrip().upper())), "
                                           "result is not None)",
    },
    raises={"*": {}},
    serves=["C03"],
)

# U11b: SequenceBase.match - one new node per entry of the list, in order (C10: no node occurs twice; C02: no entry lost)
contract("proto:split_entries", trusted=True, pure=True,
    types=dict(self="str", separator="str"), returns="list[str]", modifies=[],
    ensures={"never_empty": "len(result) >= 1"}, raises=[],
    note="str.split(separator) of the abstracted text: at least one piece (Python semantics of split with a separator)")

contract(U + "SequenceBase.match",
    types=dict(separator="str", subcls="cls", string="str"),
    returns="tuple[str,list[ref:Base]]?",
    modifies=["rule_evals"],
    calls={"string_replace_map": "proto:string_replace_map", "line.split": "proto:split_entries", "srm_line(string).split": "proto:split_entries", "subcls": "proto:operand_rule", "repmap": "pure:str",
           "type": "pure:any"},
    ensures={
        "one_node_per_entry": "implies(result is not None, len(nonnull(result)[1]) == len(srm_line(string).split(separator)))",
        "entries_in_order": "implies(result is not None, all(rule_text(nonnull(result)[1][k]) == repmap(srm_line(string).split(separator)[k].strip()) "
                            "and rule_cls(nonnull(result)[1][k]) == subcls for k in range(len(nonnull(result)[1]))))",
        "no_node_twice": "implies(result is not None, all(all(nonnull(result)[1][j] != nonnull(result)[1][k] "
                         "for k in range(j + 1, len(nonnull(result)[1]))) for j in range(len(nonnull(result)[1]))))",
        "separator_kept": "implies(result is not None, nonnull(result)[0] == separator)",
    },
    raises={"*": {}},
    serves=["C10", "C02"],
)

# U11c: CallBase.match - "lhs ( rhs )": the bracket pair is the last '(' and the last ')' of the abstracted text (C08, C02)
OPEN = "srm_line(string).rfind('(')"
CLOSE = "srm_line(string).rfind(')')"
contract(U + "CallBase.match@cls",
    types=dict(lhs_cls="cls", rhs_cls="cls", string="str", upper_lhs="bool", require_rhs="bool"),
    defaults=dict(upper_lhs=False, require_rhs=False),
    returns="tuple[ref:Base,ref:Base?]?",
    modifies=["rule_evals"],
    calls={"string_replace_map": "proto:string_replace_map", "lhs_cls": "proto:operand_rule", "rhs_cls": "proto:operand_rule", "repmap": "pure:str"},
    ensures={
        "must_end_with_parenthesis": "implies(not string.rstrip().endswith(')'), result is None)",
        "needs_an_opening_parenthesis_and_a_left_part": "implies(result is not None, " + OPEN + " >= 0 and srm_line(string)[:" + OPEN + "].rstrip() != '')",
        "left_part_to_its_rule": "implies(result is not None, rule_cls(nonnull(result)[0]) == lhs_cls and rule_text(nonnull(result)[0]) == "
                                 "(repmap(srm_line(string)[:" + OPEN + "].rstrip()).upper() if upper_lhs else repmap(srm_line(string)[:" + OPEN + "].rstrip())))",
        # everything between the last '(' and the last ')' - not a shorter piece - is the argument text
        "whole_bracket_content_to_its_rule": "implies(result is not None and nonnull(result)[1] is not None, rule_cls(nonnull(nonnull(result)[1])) == rhs_cls and "
                                             "rule_text(nonnull(nonnull(result)[1])) == repmap(srm_line(string)[" + OPEN + " + 1:" + CLOSE + "].strip()))",
        "empty_brackets": "implies(result is not None and nonnull(result)[1] is None, "
                          "repmap(srm_line(string)[" + OPEN + " + 1:" + CLOSE + "].strip()) == '' and not require_rhs)",
    },
    raises={"*": {}},
    serves=["C08", "C02"],
)

contract(U + "CallBase.match@keyword",
    types=dict(lhs_cls="str", rhs_cls="cls", string="str", upper_lhs="bool", require_rhs="bool"),
    defaults=dict(upper_lhs=False, require_rhs=False),
    returns="tuple[str,ref:Base?]?",
    modifies=["rule_evals"],
    calls={"string_replace_map": "proto:string_replace_map", "rhs_cls": "proto:operand_rule", "repmap": "pure:str"},
    ensures={
        "must_end_with_parenthesis": "implies(not string.rstrip().endswith(')'), result is None)",
        "keyword_is_the_whole_left_part": "implies(result is not None, " + OPEN + " >= 0 and nonnull(result)[0] == lhs_cls and lhs_cls == "
                                          "(repmap(srm_line(string)[:" + OPEN + "].rstrip()).upper() if upper_lhs else repmap(srm_line(string)[:" + OPEN + "].rstrip())))",
        "whole_bracket_content_to_its_rule": "implies(result is not None and nonnull(result)[1] is not None, rule_cls(nonnull(nonnull(result)[1])) == rhs_cls and "
                                             "rule_text(nonnull(nonnull(result)[1])) == repmap(srm_line(string)[" + OPEN + " + 1:" + CLOSE + "].strip()))",
        "empty_brackets": "implies(result is not None and nonnull(result)[1] is None, "
                          "repmap(srm_line(string)[" + OPEN + " + 1:" + CLOSE + "].strip()) == '' and not require_rhs)",
    },
    raises={"*": {}},
    serves=["C08", "C02"],
)

# U12: EndStmtBase.match - "END [ <type> [ <name> ] ]" (C08: what an END statement carries is what the block check compares)
REST = "string[3:].lstrip()"
contract(U + "EndStmtBase.match",
    types=dict(stmt_type="str", stmt_name="cls?", string="str", require_stmt_type="bool"),
    defaults=dict(require_stmt_type=False),
    returns="tuple[str?,ref:Base?]?",
    requires={"a_type_is_named": "stmt_type != ''"},
    modifies=["rule_evals"],
    calls={"stmt_name": "proto:operand_rule"},
    ensures={
        "must_start_with_end": "implies(string[:3].upper() != 'END', result is None)",
        "bare_end": "implies(string[:3].upper() == 'END' and " + REST + " == '', (result is None) == require_stmt_type and "
                    "implies(result is not None, nonnull(result)[0] is None and nonnull(result)[1] is None))",
        "type_must_agree": "implies(result is not None and " + REST + " != '', nonnull(result)[0] == stmt_type and " +
                           REST + "[:len(stmt_type)].upper().replace(' ', '') == stmt_type.replace(' ', ''))",
        # whatever follows the type is the name: it is handed to the name rule unchanged, never dropped
        "name_is_the_rest": "implies(result is not None and " + REST + " != '', "
                            "(nonnull(result)[1] is None) == (" + REST + "[len(stmt_type):].lstrip() == '') and "
                            "implies(nonnull(result)[1] is not None, stmt_name is not None and rule_text(nonnull(nonnull(result)[1])) == " + REST + "[len(stmt_type):].lstrip()))",
    },
    raises={"*": {}},
    serves=["C08"],
)

# U13: BracketBase.match - "<left> [ content ] <right>" with symmetric bracket strings (C02: the content is handed on whole)
BN = "brackets.replace(' ', '')"
SS = "string.strip()"
contract(U + "BracketBase.match",
    types=dict(brackets="str", cls="cls?", string="str", require_cls="bool"),
    defaults=dict(require_cls=True),
    returns="tuple[str,ref:Base?,str]?",
    modifies=["rule_evals"],
    calls={"cls": "proto:operand_rule"},
    ensures={
        "brackets_are_the_two_halves": "implies(result is not None, len(" + BN + ") > 0 and len(" + BN + ") % 2 == 0 and "
                                       "nonnull(result)[0] == " + BN + "[:len(" + BN + ") // 2] and nonnull(result)[2] == " + BN + "[len(" + BN + ") // 2:])",
        "text_is_enclosed": "implies(result is not None, " + SS + ".startswith(nonnull(result)[0]) and " + SS + ".endswith(nonnull(result)[2]) and "
                            "len(" + SS + ") >= len(" + BN + "))",
        "whole_content_to_the_rule": "implies(result is not None and nonnull(result)[1] is not None, cls is not None and "
                                     "rule_text(nonnull(nonnull(result)[1])) == " + SS + "[len(" + BN + ") // 2:len(" + SS + ") - len(" + BN + ") // 2].lstrip())",
        "no_content_only_if_empty": "implies(result is not None and nonnull(result)[1] is None, "
                                    + SS + "[len(" + BN + ") // 2:len(" + SS + ") - len(" + BN + ") // 2].lstrip() == '')",
    },
    raises={"*": {}},
    serves=["C02", "C08"],
)

# U14: KeywordValueBase.match with a keyword on the left - "KEYWORD = value" (C02: the value text is handed on whole)
contract(U + "KeywordValueBase.match@keyword",
    types=dict(lhs_cls="str", rhs_cls="cls", string="str", require_lhs="bool", upper_lhs="bool"),
    defaults=dict(require_lhs=True, upper_lhs=False),
    returns="tuple[str?,ref:Base]?",
    requires={"a_keyword_is_given": "lhs_cls != ''"},
    modifies=["rule_evals"],
    calls={"rhs_cls": "proto:operand_rule"},
    ensures={
        "keyword_required": "implies(require_lhs and '=' not in string, result is None)",
        "keyword_is_the_text_before_the_first_equals": "implies(result is not None and nonnull(result)[0] is not None, '=' in string and nonnull(nonnull(result)[0]) == lhs_cls and "
                "lhs_cls == (string[:string.find('=')].strip().upper() if upper_lhs else string[:string.find('=')].strip()))",
        "value_is_everything_after_the_first_equals": "implies(result is not None and nonnull(result)[0] is not None, rule_cls(nonnull(result)[1]) == rhs_cls and "
                "rule_text(nonnull(result)[1]) == string[string.find('=') + 1:].strip())",
        "without_keyword_the_whole_text_is_the_value": "implies(result is not None and nonnull(result)[0] is None, not require_lhs and "
                "rule_cls(nonnull(result)[1]) == rhs_cls and rule_text(nonnull(result)[1]) == string.strip())",
    },
    raises={"*": {}},
    serves=["C02"],
)

# U15: SeparatorBase.match - "[ lhs ] : [ rhs ]" split at the first ':' of the abstracted text (C02, C03 subscript triplets)
COL = "srm_line(string).find(':')"
contract(U + "SeparatorBase.match",
    types=dict(lhs_cls="cls?", rhs_cls="cls?", string="str", require_lhs="bool", require_rhs="bool"),
    defaults=dict(require_lhs=False, require_rhs=False),
    returns="tuple[ref:Base?,ref:Base?]?",
    modifies=["rule_evals"],
    calls={"string_replace_map": "proto:string_replace_map", "lhs_cls": "proto:operand_rule", "rhs_cls": "proto:operand_rule", "repmap": "pure:str"},
    ensures={
        "needs_a_colon": "implies(':' not in srm_line(string), result is None)",
        "left_side_whole": "implies(result is not None, (nonnull(result)[0] is None) == (srm_line(string)[:" + COL + "].rstrip() == '') and "
                           "implies(nonnull(result)[0] is not None, rule_text(nonnull(nonnull(result)[0])) == repmap(srm_line(string)[:" + COL + "].rstrip())))",
        "right_side_whole": "implies(result is not None, (nonnull(result)[1] is None) == (srm_line(string)[" + COL + " + 1:].lstrip() == '') and "
                            "implies(nonnull(result)[1] is not None, rule_text(nonnull(nonnull(result)[1])) == repmap(srm_line(string)[" + COL + " + 1:].lstrip())))",
        "required_sides": "implies(result is not None, implies(require_lhs, nonnull(result)[0] is not None) and implies(require_rhs, nonnull(result)[1] is not None))",
    },
    raises={"*": {}},
    serves=["C02", "C03"],
)

# U16: StringBase.match - a leaf rule keeps the matched text verbatim (C02)
contract(U + "StringBase.match@regex",
    types=dict(pattern="regex", string="str"), returns="tuple[str]?",
    ensures={"iff_pattern_matches": "(result is not None) == re_matched(pattern, string)",
             "text_kept_verbatim": "implies(result is not None, nonnull(result)[0] == string)"},
    raises=[], serves=["C02"])

contract(U + "StringBase.match@str",
    types=dict(pattern="str", string="str"), returns="tuple[str]?",
    ensures={"iff_equal": "(result is not None) == (pattern == string)",
             "text_kept_verbatim": "implies(result is not None, nonnull(result)[0] == string)"},
    raises=[], serves=["C02"])

# U17: WORDClsBase.match with a keyword string - "KEYWORD [ [ :: ] rest ]" (C02: the rest goes to the rule whole; C08 keywords)
WL = "string.lstrip()"
AFTER = WL + "[len(keyword):]"
contract(U + "WORDClsBase.match@keyword",
    types=dict(keyword="str", cls="cls?", string="str", colons="bool", require_cls="bool"),
    defaults=dict(colons=False, require_cls=False),
    returns="tuple[str,ref:Base?]?",
    modifies=["rule_evals"],
    calls={"cls": "proto:operand_rule", "isalnum": "pure:bool"},
    ensures={
        "keyword_must_lead": "implies(" + WL + "[:len(keyword)].upper() != keyword.upper(), result is None)",
        "keyword_reported": "implies(result is not None, nonnull(result)[0] == keyword)",
        "rest_goes_to_the_rule_whole": "implies(result is not None and nonnull(result)[1] is not None, cls is not None and "
                                       "(rule_text(nonnull(nonnull(result)[1])) == " + AFTER + ".lstrip() or "
                                       "(colons and " + AFTER + ".lstrip().startswith('::') and rule_text(nonnull(nonnull(result)[1])) == " + AFTER + ".lstrip()[2:].lstrip())))",
        "no_rule_node_only_without_rest": "implies(result is not None and nonnull(result)[1] is None, not require_cls and "
                                          "(" + AFTER + ".lstrip() == '' or (colons and False)))",
    },
    raises={"*": {}},
    serves=["C02"],
)
