"""Contracts for fparser/two/symbol_table.py (T1-T8) over the ghost scope stack G4."""
from pyvc.contracts import contract, spec

M = "fparser.two.symbol_table:"

# representation invariant tying the ghost stack to _current_scope and the parent links
spec("REP", "t:SymbolTables", "bool",
     "((len(scope_stack) == 0) == (t._current_scope is None)) "
     "and implies(len(scope_stack) > 0, t._current_scope == scope_stack[len(scope_stack) - 1] and scope_stack[0]._parent is None) "
     "and all(scope_stack[i]._parent == scope_stack[i - 1] for i in range(1, len(scope_stack)))",
     macro=True)

contract(M + "SymbolTables.clear",
    str_axioms=["case_idempotent"], alloc_facts=True,
    types=dict(self="SymbolTables"),
    modifies=["self._symbol_tables", "self._current_scope", "scope_stack"],
    ghost_update={"scope_stack": "[]"},
    ensures={
        "no_tables": "all_absent(self._symbol_tables)",
        "no_scope": "self._current_scope is None",
        "stack_empty": "scope_stack == [] and REP(self)",
    },
    raises=[],
    serves=["C09", "C16"],
)

contract(M + "SymbolTable.__init__",
    str_axioms=["case_idempotent"], alloc_facts=True,
    types=dict(self="SymbolTable", name="str", parent="ref:SymbolTable?", checking_enabled="bool", node="any"),
    modifies=["self._name", "self._data_symbols", "self._modules", "self._parent", "self._node", "self._checking_enabled", "self._children"],
    ensures={
        "name_lower": "self._name == name.lower()",
        "parent_set": "self._parent == parent",
        "no_children": "self._children == []",
        "no_symbols": "all_absent(self._data_symbols) and all_absent(self._modules)",
    },
    raises={"TypeError": {}},
    serves=["C16"],
)

contract(M + "SymbolTable.add_child",
    str_axioms=["case_idempotent"], alloc_facts=True,
    types=dict(self="SymbolTable", child="ref:SymbolTable"),
    modifies=["self._children"],
    ensures={"appended": "self._children == old(self._children) + [child]"},
    raises={"TypeError": {}},
    serves=["C16"],
)

contract(M + "SymbolTables.add",
    str_axioms=["case_idempotent"], alloc_facts=True,
    types=dict(self="SymbolTables", name="str", node="any"),
    returns="ref:SymbolTable",
    modifies=["self._symbol_tables", "*._name", "*._data_symbols", "*._modules", "*._parent", "*._node", "*._checking_enabled", "*._children"],
    ensures={
        "registered": "name.lower() in self._symbol_tables and self._symbol_tables[name.lower()] == result",
        "others_kept": "dict_same_except(self._symbol_tables, old(self._symbol_tables), name.lower())",
        "fresh_root": "result._parent is None and result._children == [] and result._name == name.lower()",
        "is_new": "not was_allocated(result)",
        "frame": "unchanged_except('_parent', result) and unchanged_except('_children', result) and unchanged_except('_name', result)",
        "was_absent": "name.lower() not in old(self._symbol_tables)",
    },
    raises={"SymbolTableError": {"was_present": "name.lower() in self._symbol_tables", "unchanged": "self._symbol_tables == old(self._symbol_tables)"},
            "TypeError": {"unchanged": "self._symbol_tables == old(self._symbol_tables)"}},
    serves=["C09", "C16"],
)

contract(M + "SymbolTables.lookup",
    str_axioms=["case_idempotent"], alloc_facts=True,
    types=dict(self="SymbolTables", name="str"),
    returns="ref:SymbolTable",
    ensures={"found": "name.lower() in self._symbol_tables and result == self._symbol_tables[name.lower()]"},
    raises={"KeyError": {"absent": "name.lower() not in self._symbol_tables"}},
    serves=["C16"],
)

contract(M + "SymbolTables.enter_scope",
    str_axioms=["case_idempotent"], alloc_facts=True,
    types=dict(self="SymbolTables", name="str", node="any"),
    requires={"rep": "REP(self)"},
    modifies=["self._symbol_tables", "self._current_scope", "scope_stack",
              "*._name", "*._data_symbols", "*._modules", "*._parent", "*._node", "*._checking_enabled", "*._children"],
    ghost_update={"scope_stack": "old(scope_stack) + [nonnull(self._current_scope)]"},
    ensures={
        "pushed": "self._current_scope is not None and scope_stack == old(scope_stack) + [nonnull(self._current_scope)]",
        "rep": "REP(self)",
        "nested_is_new_child": "implies(old(self._current_scope) is not None, "
                               "self._current_scope._parent == old(self._current_scope) "
                               "and old(self._current_scope)._children == old(old(self._current_scope)._children) + [nonnull(self._current_scope)] "
                               "and self._current_scope._name == name.lower() and not was_allocated(self._current_scope) "
                               "and self._symbol_tables == old(self._symbol_tables))",
        "top_level_registered": "implies(old(self._current_scope) is None, "
                                "name.lower() in self._symbol_tables and self._symbol_tables[name.lower()] == self._current_scope "
                                "and dict_same_except(self._symbol_tables, old(self._symbol_tables), name.lower()))",
        "top_level_reuses_existing": "implies(old(self._current_scope) is None and name.lower() in old(self._symbol_tables), "
                                     "self._symbol_tables == old(self._symbol_tables))",
        "frame": "unchanged_except('_parent', self._current_scope) and unchanged_except('_children', self._current_scope, old(self._current_scope)) "
                 "and unchanged_except('_name', self._current_scope)",
        "top_level_reuse_changes_no_link": "implies(old(self._current_scope) is None and name.lower() in old(self._symbol_tables), "
                 "self._current_scope._parent is None)",
    },
    raises={"TypeError": {"nothing_entered": "scope_stack == old(scope_stack) and self._current_scope == old(self._current_scope)",
                          "tables_kept": "self._symbol_tables == old(self._symbol_tables)",
                          "rep": "REP(self)"}},
    # a table found by lookup() was created by add(), hence is a root [A: class invariant of top-level tables]
    assume={"top_level_tables_are_roots": "implies(name.lower() in self._symbol_tables, self._symbol_tables[name.lower()]._parent is None)"},
    serves=["C09", "C16"],
)

contract(M + "SymbolTables.exit_scope",
    str_axioms=["case_idempotent"], alloc_facts=True,
    types=dict(self="SymbolTables"),
    requires={"rep": "REP(self)"},
    modifies=["self._current_scope", "scope_stack"],
    ghost_update={"scope_stack": "old(scope_stack)[:len(old(scope_stack)) - 1]"},
    ensures={
        "popped": "len(old(scope_stack)) > 0 and scope_stack == old(scope_stack)[:len(old(scope_stack)) - 1]",
        "rep": "REP(self)",
        "to_parent": "self._current_scope == old(self._current_scope)._parent",
    },
    raises={"SymbolTableError": {"was_empty": "len(scope_stack) == 0 and scope_stack == old(scope_stack) and self._current_scope is None"}},
    serves=["C09", "C16"],
)

# index of the first table called n in xs at or after position i (-1: none)
spec("first_named", "xs:list[ref], n:str, i:int", "int",
     "-1 if (i >= len(xs) or i < 0) else (i if xs[i]._name == n else first_named(xs, n, i + 1))",
     rec=True, heap=["_name"])

contract(M + "SymbolTable.del_child",
    str_axioms=["case_idempotent"], alloc_facts=True,
    types=dict(self="SymbolTable", name="str"),
    modifies=["self._children"],
    locals=dict(),
    ensures={
        "found": "first_named(old(self._children), name.lower(), 0) >= 0",
        "first_match_removed": "self._children == old(self._children)[:first_named(old(self._children), name.lower(), 0)] "
                               "+ old(self._children)[first_named(old(self._children), name.lower(), 0) + 1:]",
    },
    raises={"KeyError": {"none_named": "first_named(self._children, name.lower(), 0) == -1", "unchanged": "self._children == old(self._children)"}},
    loops={0: dict(invariant={"none_before": "first_named(self._children, lname, 0) == first_named(self._children, lname, _k0)",
                              "none_before_all": "all(self._children[i]._name != lname for i in range(0, _k0))",
                              "untouched": "self._children == old(self._children) and lname == name.lower()"})},
    serves=["C09", "C16"],
)

contract(M + "SymbolTable.root", prop=True,
    str_axioms=["case_idempotent"], alloc_facts=True,
    types=dict(self="SymbolTable"), returns="ref:SymbolTable",
    ensures={"is_a_root": "result._parent is None"},
    raises=[],
    loops={0: dict(invariant={"t": "True"}, types={"current": "ref:SymbolTable"})},
    serves=["C16"],
)

contract(M + "SymbolTables.remove",
    str_axioms=["case_idempotent"], alloc_facts=True,
    types=dict(self="SymbolTables", name="str"),
    requires={"rep": "REP(self)"},
    modifies=["self._symbol_tables", "*._children"],
    ensures={
        "scope_kept": "self._current_scope == old(self._current_scope) and scope_stack == old(scope_stack)",
        "child_of_current_first": "implies(self._current_scope is not None and first_named(old(self._current_scope._children), name.lower(), 0) >= 0, "
              "self._symbol_tables == old(self._symbol_tables) and self._current_scope._children == "
              "old(self._current_scope._children)[:first_named(old(self._current_scope._children), name.lower(), 0)] + "
              "old(self._current_scope._children)[first_named(old(self._current_scope._children), name.lower(), 0) + 1:])",
        "else_top_level": "implies(self._current_scope is None or first_named(old(self._current_scope._children), name.lower(), 0) == -1, "
              "name.lower() in old(self._symbol_tables) and name.lower() not in self._symbol_tables "
              "and dict_same_except(self._symbol_tables, old(self._symbol_tables), name.lower()))",
        "frame": "unchanged_except('_children', self._current_scope)",
        "tables_only_shrink": "dict_subset(self._symbol_tables, old(self._symbol_tables))",
        "rep": "REP(self)",
    },
    raises={"SymbolTableError": {"unchanged": "self._symbol_tables == old(self._symbol_tables) and self._current_scope == old(self._current_scope) and scope_stack == old(scope_stack)",
                                 "children_kept": "unchanged_except('_children', None)",
                                 "only_when": "name.lower() not in self._symbol_tables or self._current_scope is not None",
                                 # C06: cleaning up a nested scoping unit (a child of the current scope) never fails
                                 "never_for_a_child_of_the_current_scope": "self._current_scope is None or first_named(old(self._current_scope._children), name.lower(), 0) == -1",
                                 "rep": "REP(self)"}},
    serves=["C06", "C09", "C16"],
)
